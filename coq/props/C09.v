(* C09 — the precision flag is honoured end to end.
   Only statements here; proofs live in theories/Precision.v, over gen/GenPrecision.v (= the float policy, the
   constant-binding decisions and the two jax_enable_x64 context managers of the CURRENT /repo code, translated on
   every run) and theories/Onnx.v (= the abstract syntax real exports are converted to by tools/onnx2coq.py).
   What cannot be closed by proof (plugins create helper constants and casts ad hoc) is checked per export by
   evaluating [no_double] inside Coq and by the ORT-vs-JAX(x64) comparison of harness/c09.py. *)
From Coq Require Import ZArith String List Bool.
From J2O Require Import PyLib Dtype Onnx CastSem Precision.
From J2OGen Require Import GenPrecision.
Import ListNotations.
Open Scope Z_scope.

(* ---------------------------------------------------------------- (V) the validator run on every single-precision export *)
(* sound AND complete: no_double accepts exactly the models without DOUBLE(11)/COMPLEX128(15) on any declared value
   (inputs, initializers, outputs, value_info) of ANY graph of the table (main graph and all If/Loop/Scan bodies), on
   any tensor attribute (Constant.value, ConstantOfShape.value, ...) and on any Cast.to / *.dtype attribute of any node
   of any graph or function body *)
Theorem C09_no_double_iff : forall m, no_double m = true <->
  (forall g vi, In g (om_graphs m) -> In vi (graph_decls g) -> vi_dtype vi <> 11 /\ vi_dtype vi <> 15) /\
  (forall n nm d dims s, In n (all_nodes m) -> In (nm, ATensor d dims s) (on_attrs n) -> d <> 11 /\ d <> 15) /\
  (forall n nm z, In n (all_nodes m) -> In (nm, AInt z) (on_attrs n) -> nm = "to"%string \/ nm = "dtype"%string ->
                  z <> 11 /\ z <> 15).
Proof. exact no_double_iff. Qed.
Print Assumptions C09_no_double_iff.

Theorem C09_no_double_complete : forall m, no_double m = false ->
  (exists g vi, In g (om_graphs m) /\ In vi (graph_decls g) /\ is_double (vi_dtype vi) = true) \/
  (exists n nm a, In n (all_nodes m) /\ In (nm, a) (on_attrs n) /\ attr_ok is_double (on_op n) (nm, a) = false).
Proof. exact no_double_complete. Qed.
Print Assumptions C09_no_double_complete.

(* all nodes = nodes of every graph of the table + nodes of every function body *)
Theorem C09_all_nodes : forall m n, In n (all_nodes m) <->
  (exists g, In g (om_graphs m) /\ In n (og_nodes g)) \/ (exists f, In f (om_functions m) /\ In n (of_nodes f)).
Proof. exact in_all_nodes. Qed.
Print Assumptions C09_all_nodes.

(* nested bodies at any depth, also those hanging off function bodies, are covered *)
Theorem C09_no_double_reaches_nested_bodies : forall m, no_double m = true -> forall g, reach m g ->
  (forall vi, In vi (graph_decls g) -> vi_dtype vi <> 11 /\ vi_dtype vi <> 15) /\
  (forall n nm d dims s, In n (og_nodes g) -> In (nm, ATensor d dims s) (on_attrs n) -> d <> 11 /\ d <> 15) /\
  (forall n nm z, In n (og_nodes g) -> In (nm, AInt z) (on_attrs n) -> nm = "to"%string \/ nm = "dtype"%string ->
                  z <> 11 /\ z <> 15).
Proof. exact no_double_reach. Qed.
Print Assumptions C09_no_double_reaches_nested_bodies.

Theorem C09_table_closed_sound : forall m, table_closed m = true ->
  forall n i, In n (all_nodes m) -> In i (node_subgraph_ids n) -> exists g, graph_by_id m i = Some g.
Proof. exact table_closed_sound. Qed.
Print Assumptions C09_table_closed_sound.

Theorem C09_first_double_none : forall m, first_double m = None <-> no_double m = true.
Proof. exact first_double_none. Qed.
Print Assumptions C09_first_double_none.

(* the analogue for single-precision items in a double-precision export (FLOAT / COMPLEX64, and Constant.value_float(s)) *)
Theorem C09_no_single_iff : forall m, no_single m = true <->
  (forall g vi, In g (om_graphs m) -> In vi (graph_decls g) -> vi_dtype vi <> 1 /\ vi_dtype vi <> 14) /\
  (forall n nm d dims s, In n (all_nodes m) -> In (nm, ATensor d dims s) (on_attrs n) -> d <> 1 /\ d <> 14) /\
  (forall n nm z, In n (all_nodes m) -> In (nm, AInt z) (on_attrs n) -> nm = "to"%string \/ nm = "dtype"%string ->
                  z <> 1 /\ z <> 14) /\
  (forall n nm, In n (all_nodes m) -> on_op n = "Constant"%string ->
      ~ In (nm, AFloat) (on_attrs n) /\ ~ In (nm, AFloats) (on_attrs n)).
Proof. exact no_single_iff. Qed.
Print Assumptions C09_no_single_iff.

Theorem C09_first_single_none : forall m, first_single m = None <-> no_single m = true.
Proof. exact first_single_none. Qed.
Print Assumptions C09_first_single_none.

(* non-vacuity: a DOUBLE Cast hidden in a Loop body that hangs off a function body is found *)
Theorem C09_validator_nonvacuous : no_double hidden_cast_model = false /\
  first_double hidden_cast_model = Some "graph1:Cast(c).attr:to"%string /\ table_closed hidden_cast_model = true.
Proof. exact hidden_cast_rejected. Qed.
Print Assumptions C09_validator_nonvacuous.

(* ---------------------------------------------------------------- (P) the float policy (numpy dtype x flag -> ONNX dtype) *)
Theorem C09_policy_total : forall d flag, exists r, policy d flag = Some r.
Proof. exact policy_total. Qed.
Print Assumptions C09_policy_total.

(* single precision: the policy maps every numpy dtype to the ONNX type of the same representation ... *)
Theorem C09_policy_single_identity : forall d, policy d false = Some (ref_onnx d).
Proof. exact policy_single_identity. Qed.
Print Assumptions C09_policy_single_identity.
(* ... so DOUBLE comes out exactly for a float64 numpy value: a float64 constant bound without a down-cast DOES yield
   DOUBLE in single-precision mode (the per-export check has to establish that none reaches the graph) *)
Theorem C09_policy_single : forall d, policy d false = Some DT_DOUBLE <-> d = NP_float64.
Proof. exact policy_single. Qed.
Print Assumptions C09_policy_single.
Theorem C09_policy_single_complex : forall d, policy d false = Some DT_COMPLEX128 <-> d = NP_complex128.
Proof. exact policy_single_complex. Qed.
Print Assumptions C09_policy_single_complex.

(* double precision: every floating dtype except float16 / bfloat16 (kept, as the code says) becomes DOUBLE *)
Theorem C09_policy_double : forall d, np_class d = CFloat -> d <> NP_float16 -> d <> NP_bfloat16 ->
  policy d true = Some DT_DOUBLE.
Proof. exact policy_double. Qed.
Print Assumptions C09_policy_double.
Theorem C09_policy_double_iff : forall d, policy d true = Some DT_DOUBLE <-> d = NP_float32 \/ d = NP_float64.
Proof. exact policy_double_iff. Qed.
Print Assumptions C09_policy_double_iff.
Theorem C09_policy_double_never_float : forall d, policy d true <> Some DT_FLOAT.
Proof. exact policy_double_never_float. Qed.
Print Assumptions C09_policy_double_never_float.
(* the documented exceptions, and one undocumented: complex64 keeps single-precision components in double mode *)
Theorem C09_policy_double_exceptions :
  policy NP_float16 true = Some DT_FLOAT16 /\ policy NP_bfloat16 true = Some DT_BFLOAT16 /\
  policy NP_complex64 true = Some DT_COMPLEX64.
Proof. exact policy_double_exceptions. Qed.
Print Assumptions C09_policy_double_exceptions.
Theorem C09_policy_default : forall flag,
  numpy_dtype_to_ir_with_float_policy None flag = Some (if flag then DT_DOUBLE else DT_FLOAT).
Proof. exact policy_default. Qed.
Print Assumptions C09_policy_default.

Theorem C09_policy_class_preserved : forall d flag r, policy d flag = Some r -> dtype_class r = np_class d.
Proof. exact policy_class_preserved. Qed.
Print Assumptions C09_policy_class_preserved.
Theorem C09_ints_keep_or_widen : forall d flag r sb,
  policy d flag = Some r -> np_int_info d = Some sb -> int_info r = Some sb.
Proof. exact ints_keep_or_widen. Qed.
Print Assumptions C09_ints_keep_or_widen.
Theorem C09_dtype_to_ir_is_policy : forall o flag, dtype_to_ir o flag = numpy_dtype_to_ir_with_float_policy o flag.
Proof. exact dtype_to_ir_is_policy. Qed.
Print Assumptions C09_dtype_to_ir_is_policy.

(* the flag-less mapping _to_ir_dtype_from_np *)
Theorem C09_to_ir_from_np_double_iff : forall d, to_ir_dtype_from_np d = Some DT_DOUBLE <-> d = NP_float64.
Proof. exact to_ir_from_np_double_iff. Qed.
Print Assumptions C09_to_ir_from_np_double_iff.
Theorem C09_to_ir_from_np_class_refuted : exists d r, to_ir_dtype_from_np d = Some r /\ dtype_class r <> np_class d.
Proof. exact to_ir_from_np_class_refuted. Qed.
Print Assumptions C09_to_ir_from_np_class_refuted.
Theorem C09_to_ir_from_np_class_partial : forall d r,
  np_class d <> CComplex -> to_ir_dtype_from_np d = Some r -> dtype_class r = np_class d.
Proof. exact to_ir_from_np_class_partial. Qed.
Print Assumptions C09_to_ir_from_np_class_partial.

(* promotion of payloads (the two copies of the helper agree) *)
Theorem C09_promote_spec : forall d flag,
  maybe_promote_float_array d flag = Some (if flag && np_is_floating d then NP_float64 else d) /\
  ctx_promote_float_array flag d = maybe_promote_float_array d flag.
Proof. intros. split; [apply promote_spec | symmetry; apply promote_copies_agree]. Qed.
Print Assumptions C09_promote_spec.

(* constants bound through IRContext.bind_const_for_var *)
Theorem C09_bind_const_single : forall d, bind_const_declared false d = Some DT_DOUBLE <-> d = NP_float64.
Proof. exact bind_const_single. Qed.
Print Assumptions C09_bind_const_single.
Theorem C09_bind_const_double : forall d, np_is_floating d = true -> bind_const_declared true d = Some DT_DOUBLE.
Proof. exact bind_const_double. Qed.
Print Assumptions C09_bind_const_double.
Theorem C09_bind_const_double_never_float : forall d, bind_const_declared true d <> Some DT_FLOAT.
Proof. exact bind_const_double_never_float. Qed.
Print Assumptions C09_bind_const_double_never_float.

(* initializers created through IRBuilder.add_initializer_from_scalar / _array *)
Theorem C09_builder_single_no_double : forall d r, builder_initializer_payload false d = Some r -> r <> NP_float64.
Proof. exact builder_single_no_double. Qed.
Print Assumptions C09_builder_single_no_double.
Theorem C09_builder_single_complex128_kept : builder_initializer_payload false NP_complex128 = Some NP_complex128.
Proof. exact builder_single_complex128_kept. Qed.
Print Assumptions C09_builder_single_complex128_kept.

(* closed-over constants of the traced jaxpr: DOUBLE in single mode only if JAX itself typed the constant float64 *)
Theorem C09_closed_const_single : forall c t r, closed_const_payload c t NP_float32 false = Some r ->
  (r = NP_float64 <-> c = NP_float64 /\ t = Some NP_float64).
Proof. exact closed_const_single. Qed.
Print Assumptions C09_closed_const_single.
Theorem C09_closed_const_double : forall c t r, closed_const_payload c t NP_float64 true = Some r ->
  np_is_floating r = true -> r = NP_float64.
Proof. exact closed_const_double. Qed.
Print Assumptions C09_closed_const_double.

(* post-processing with promote_to_double leaves no float32 payload on what it visits, and it visits initializers,
   Constant nodes, node outputs, nested graph attributes and functions (structure read from the AST) *)
Theorem C09_postprocess_no_float32 : forall d, postprocess_payload true d <> NP_float32.
Proof. exact postprocess_no_float32. Qed.
Print Assumptions C09_postprocess_no_float32.
Theorem C09_postprocess_traversal : postprocess_visits_initializers && postprocess_visits_constant_nodes &&
  postprocess_visits_node_outputs && postprocess_recurses_graph_attrs && postprocess_visits_functions &&
  function_scope_inherits_flag = true.
Proof. exact postprocess_traversal. Qed.
Print Assumptions C09_postprocess_traversal.

(* the library answers used by the translated code agree with the hand-written reference classification *)
Theorem C09_library_tables_agree : forall d,
  np_from_numpy d = Some (ref_onnx d) /\
  np_is_integer d = match np_class d with CInt => true | _ => false end /\
  np_is_complexfloating d = match np_class d with CComplex => true | _ => false end /\
  np_is_floating d = match np_class d with CFloat => negb (npdtype_eqb d NP_bfloat16) | _ => false end /\
  dtype_class (ref_onnx d) = np_class d /\ int_info (ref_onnx d) = np_int_info d.
Proof. exact lib_agrees_with_reference. Qed.
Print Assumptions C09_library_tables_agree.

(* ---------------------------------------------------------------- (P) the process-wide JAX 64-bit setting *)
(* cfg = jax_enable_x64; a body maps the state it starts in to (state it leaves, did it raise).  For EVERY behaviour
   of conversion and post-processing (any change of the flag, normal or exceptional exit at any point) the flag after
   to_onnx equals the flag before *)
Theorem C09_x64_restored : forall flag convert post prev, fst (to_onnx_x64 flag convert post prev) = prev.
Proof. exact x64_restored. Qed.
Print Assumptions C09_x64_restored.
Theorem C09_x64_convert_sees_flag : forall flag convert post prev,
  to_onnx_x64 flag convert post prev = (prev, snd (let '(c, r) := convert flag in if r then (c, true) else post c)).
Proof. exact x64_convert_sees_flag. Qed.
Print Assumptions C09_x64_convert_sees_flag.
Theorem C09_x64_restored_nested : forall f1 f2 pre c2 p2 rest post prev,
  fst (to_onnx_x64 f1 (body_seq pre (body_seq (to_onnx_x64 f2 c2 p2) rest)) post prev) = prev /\
  forall s, fst (to_onnx_x64 f2 c2 p2 s) = s.
Proof. exact x64_restored_nested. Qed.
Print Assumptions C09_x64_restored_nested.
Theorem C09_temporary_x64_spec : forall enabled body cfg, temporary_x64 enabled body cfg = (cfg, snd (body enabled)).
Proof. exact temporary_x64_spec. Qed.
Print Assumptions C09_temporary_x64_spec.
Theorem C09_force_jax_x64_spec : forall target body cfg,
  force_jax_x64 target body cfg = ((if Bool.eqb cfg target then fst (body target) else cfg), snd (body target)).
Proof. exact force_jax_x64_spec. Qed.
Print Assumptions C09_force_jax_x64_spec.
(* the inner manager alone is NOT robust against a body that leaves the flag changed (it is only used under the outer one) *)
Theorem C09_force_alone_refuted : exists t body s, fst (force_jax_x64 t body s) <> s.
Proof. exact force_alone_not_robust. Qed.
Print Assumptions C09_force_alone_refuted.
Theorem C09_force_partial : forall t body s, (forall s', fst (body s') = s') -> fst (force_jax_x64 t body s) = s.
Proof. exact force_restores_if_body_does. Qed.
Print Assumptions C09_force_partial.

(* ---------------------------------------------------------------- (P) promotion float32 -> float64 is exact *)
Theorem C09_promotion_exact : forall v, in_dom DT_FLOAT v ->
  cast DT_FLOAT DT_DOUBLE v = Some v /\ in_dom DT_DOUBLE v /\ cast DT_DOUBLE DT_FLOAT v = Some v.
Proof. exact promotion_exact. Qed.
Print Assumptions C09_promotion_exact.
Theorem C09_f32_values_are_f64_values : forall x, fin_fmt (24, -149, 127) x -> fin_fmt (53, -1074, 1023) x.
Proof. exact f32_values_are_f64_values. Qed.
Print Assumptions C09_f32_values_are_f64_values.
(* ... and the converse fails, which is why a hidden float32 round trip is observable *)
Theorem C09_demotion_not_exact : ~ (forall x, fin_fmt (53, -1074, 1023) x -> fin_fmt (24, -149, 127) x).
Proof. exact demotion_not_exact. Qed.
Print Assumptions C09_demotion_not_exact.

(* ---------------------------------------------------------------- (V) constants are materialised in double, not widened *)
Theorem C09_no_widened_single_const_sound : forall m, no_widened_single_const m = true ->
  (forall g n i, In g (om_graphs m) -> In n (og_nodes g) -> is_cast_to_double n = true -> In i (on_ins n) ->
     str_mem i (single_const_names g) = false) /\
  (forall f n i, In f (om_functions m) -> In n (of_nodes f) -> is_cast_to_double n = true -> In i (on_ins n) ->
     str_mem i (single_const_outs (of_nodes f)) = false).
Proof. exact no_widened_single_const_sound. Qed.
Print Assumptions C09_no_widened_single_const_sound.
