(* C12 — layout flags only add boundary transposes.  Statements only; proofs in theories/Layout.v
   over gen/GenLayout.v (the permutation constants and their use sites read from the current source). *)
From Coq Require Import List ZArith.
From J2O Require Import PyLib Tensor Layout.
From J2OGen Require Import GenLayout.
Import ListNotations.

(* the two constants are mutually inverse permutations, and the one used for outputs / declared
   input shapes is the NHWC->NCHW specification *)
Theorem C12_perms_inverse :
  is_inverse (perm_of_Z NHWC_TO_NCHW_PERM) (perm_of_Z NCHW_TO_NHWC_PERM) /\
  is_inverse (perm_of_Z NCHW_TO_NHWC_PERM) (perm_of_Z NHWC_TO_NCHW_PERM) /\
  p_out = spec_nhwc_to_nchw /\ p_in_shape = spec_nhwc_to_nchw /\ p_out_shape = spec_nhwc_to_nchw /\
  is_inverse spec_nhwc_to_nchw p_in.
Proof. exact (conj (proj1 perms_inverse) (conj (proj2 perms_inverse)
  (conj p_out_is_spec (conj p_in_shape_is_spec (conj p_out_shape_is_spec p_in_inverts_spec))))). Qed.
Print Assumptions C12_perms_inverse.

(* for EVERY function F of the plain export (any teq-respecting map on tensor lists), every subset of
   flagged inputs/outputs and every input: the flagged model fed NCHW versions returns the NCHW
   versions of the plain results; unflagged positions are untouched *)
Theorem C12_adapter_correct : forall (A : Type) (F : list (tensor A) -> list (tensor A)),
  (forall xs ys, Forall2 teq xs ys -> Forall2 teq (F xs) (F ys)) ->
  forall fI fO xs, flagged_rank4 fI xs -> flagged_rank4 fO (F xs) ->
    Forall2 teq (adapted_n F fI fO (map_flagged fI nchw xs)) (map_flagged fO nchw (F xs)).
Proof. exact (@adapter_correct). Qed.
Print Assumptions C12_adapter_correct.

(* index validation accepts exactly duplicate-free, in-range, genuine-integer lists *)
Theorem C12_validate_spec : forall l ub r,
  validate_layout_indices (Some l) ub = Some r <->
  (l = map PyInt r /\ Forall (fun z => (0 <= z < ub)%Z) r /\ NoDup r).
Proof. exact validate_spec. Qed.
Print Assumptions C12_validate_spec.
