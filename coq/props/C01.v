(* C01 — the exported model computes the same function as the JAX callable.
   Part (a), proved here: the converter's GLUE (dispatch, input/output binding, appending of nodes) is correct
   for every program of any length relative to a per-equation plugin contract; the contract is satisfiable.
   Part (b), the exact kernels, is in props/C01K.v.  The numerics of the remaining plugins are explored, not proved. *)
From Coq Require Import String List Bool.
From J2O Require Import Graph Lowering LoweringSem.
Import ListNotations.

Theorem C01_lower_jaxpr_correct :
  forall (V : Type) (psem : string -> list V -> option (list V)) (gsem : string -> list nat -> list V -> option (list V))
         (reg : sregistry) (lit : V),
    eqn_contract V psem gsem reg lit ->
    forall jp s s', slower_jaxpr reg s jp = Ok s' ->
    forall r g r', related V s r g -> jeval V psem lit jp r = Some r' ->
    exists new g', s_nodes s' = s_nodes s ++ new /\ eval V gsem new g = Some g' /\ genv_le V g g' /\ related V s' r' g'.
Proof. exact lower_jaxpr_correct. Qed.
Print Assumptions C01_lower_jaxpr_correct.

(* in particular the graph values bound to the program's output variables are JAX's results *)
Theorem C01_lower_jaxpr_outputs :
  forall (V : Type) psem gsem (reg : sregistry) (lit : V) jp s s' r g r' outvars,
    eqn_contract V psem gsem reg lit -> slower_jaxpr reg s jp = Ok s' -> related V s r g -> jeval V psem lit jp r = Some r' ->
    Forall (fun v => bound (erase s') v <> None) outvars ->
    exists new g', s_nodes s' = s_nodes s ++ new /\ eval V gsem new g = Some g' /\
      Forall (fun v => exists n a, bound (erase s') v = Some n /\ g' n = Some a /\ r' v = Some a) outvars.
Proof. exact lower_jaxpr_outputs. Qed.
Print Assumptions C01_lower_jaxpr_outputs.

(* the lifted dispatcher is the dispatcher of Lowering.v (the one tied to the code) on erased contexts *)
Theorem C01_dispatcher_is_the_tied_one : forall reg s e s', slower_eqn reg s e = Ok s' ->
  forall p, reg (e_prim e) = Some p ->
  lower_eqn (fun q => if String.eqb q (e_prim e) then Some (fun _ e0 => match p s e0 with Ok (s1, r) => Ok (erase s1, r) | Err x => Err x end) else None)
            (erase s) e = Ok (erase s').
Proof. exact slower_eqn_erase. Qed.
Print Assumptions C01_dispatcher_is_the_tied_one.

(* non-vacuity: a concrete registry (one primitive, fresh-name allocation, one node per equation) meets the contract *)
Theorem C01_contract_satisfiable : eqn_contract nat ex_psem ex_gsem ex_reg 0.
Proof. exact ex_contract. Qed.
Print Assumptions C01_contract_satisfiable.
