(* C16 — failure is loud: never a silently different or partial model.  Statements only. *)
From Coq Require Import String List Bool.
From J2O Require Import PyLib Lowering C16Fail.
From J2OGen Require Import GenPolicy.
Import ListNotations.

(* for EVERY registry of plugins (arbitrary functions), every jaxpr and context: an equation whose
   primitive has no plugin makes lowering fail, whatever precedes or follows it *)
Theorem C16_unsupported_is_error : forall reg jp e, In e jp -> reg (e_prim e) = None ->
  forall c, exists x, lower_jaxpr reg c jp = Err x.
Proof. exact unsupported_is_error. Qed.
Print Assumptions C16_unsupported_is_error.

(* ... also when it sits inside a body lowered by a plugin (jit / custom_jvp / remat / control-flow bodies):
   the body lowering fails, and a failing plugin fails the enclosing lowering — every nesting depth *)
Theorem C16_nested_unsupported_is_error : forall reg body_in body body_out e_inner,
  In e_inner body -> reg (e_prim e_inner) = None ->
  forall c e, exists x, inline_plugin reg body_in body body_out c e = Err x.
Proof. exact nested_unsupported_is_error. Qed.
Print Assumptions C16_nested_unsupported_is_error.

Theorem C16_nested_error_propagates : forall reg jp e p,
  In e jp -> reg (e_prim e) = Some p -> (forall c, exists x, p c e = Err x) ->
  forall c, exists x, lower_jaxpr reg c jp = Err x.
Proof. exact nested_error_propagates. Qed.
Print Assumptions C16_nested_error_propagates.

(* success means every non-drop outvar is bound to a graph-connected value *)
Theorem C16_lower_eqn_ok_spec : forall reg c e c', lower_eqn reg c e = Ok c' ->
  reg (e_prim e) <> None /\ inputs_bound c e = true /\
  Forall (fun v => exists n, bound c' v = Some n /\ connected c' n = true) (non_drop e).
Proof. exact lower_eqn_ok_spec. Qed.
Print Assumptions C16_lower_eqn_ok_spec.

(* a plugin violating the lowering contract observably (unbound / disconnected output, unsupported result) is an error *)
Theorem C16_unbound_output_is_error : forall reg p c e c1 r v,
  reg (e_prim e) = Some p -> inputs_bound c e = true -> p c e = Ok (c1, r) ->
  forall c2, bind_returned c1 e r = Ok c2 -> In v (non_drop e) ->
  (bound c2 v = None \/ exists n, bound c2 v = Some n /\ connected c2 n = false) ->
  exists x, lower_eqn reg c e = Err x.
Proof. exact unbound_output_is_error. Qed.
Print Assumptions C16_unbound_output_is_error.

Theorem C16_bad_result_is_error : forall reg p c e c1,
  reg (e_prim e) = Some p -> inputs_bound c e = true -> p c e = Ok (c1, RBad) ->
  filter (needs_binding c1) (non_drop e) <> [] -> lower_eqn reg c e = Err EBadResult.
Proof. exact bad_result_is_error. Qed.
Print Assumptions C16_bad_result_is_error.

(* optimizer aborts at a pass boundary: default policy returns the result of the completed prefix, which is
   equivalent to the input model if every pass is (C02); strict re-raises *)
Theorem C16_abort_at_pass_boundary : forall (M : Type) (R : M -> M -> Prop),
  (forall m, R m m) -> (forall a b c, R a b -> R b c -> R a c) ->
  forall passes, (forall p m, In p passes -> R m (p m)) -> forall k m, R m (run_prefix M passes k m).
Proof. exact abort_at_pass_boundary. Qed.
Print Assumptions C16_abort_at_pass_boundary.

Theorem C16_default_policy_never_raises : forall (M : Type) (passes : list (M -> M)) k (m : M),
  policy_outcome None None passes (Some k) m
  = Some (Returned M (if failure_policy_restores_input then m else run_prefix M passes k m)).
Proof. exact (@default_policy_never_raises). Qed.
Print Assumptions C16_default_policy_never_raises.

(* current code (/repo: the policy keeps a structural clone and puts it back): the default policy returns EXACTLY the
   un-optimised model, whatever the passes did before or while failing *)
Theorem C16_default_policy_returns_input : forall (M : Type) (passes : list (M -> M)) k (m : M),
  failure_policy_restores_input = true -> policy_outcome None None passes (Some k) m = Some (Returned M m).
Proof. exact (@default_policy_returns_input). Qed.
Print Assumptions C16_default_policy_returns_input.

Theorem C16_strict_policy_reraises : forall (M : Type) (passes : list (M -> M)) k (m : M) env,
  policy_outcome (Some true) env passes (Some k) m = Some (Reraised M).
Proof. exact (@strict_policy_reraises). Qed.
Print Assumptions C16_strict_policy_reraises.

Theorem C16_resolve_strict_env : forall v,
  resolve_strict None (Some v) = Some (negb (str_in (str_lower (str_strip v)) [""; "0"; "false"; "no"; "off"]%string)).
Proof. exact resolve_strict_env. Qed.
Print Assumptions C16_resolve_strict_env.
