(* C19 — library calls keep their call signature while being traced.
   Only statements here; model and proofs live in theories/PySig.v.  The signatures themselves are not
   modelled: harness/c19.py reads them with inspect.signature from the installed originals and from the
   substitutes the converter installs on this run, and evaluates the proved procedure on every pair. *)
From Coq Require Import String List.
From J2O Require Import PySig.

(* the binder model says what PEP 3102/570 says, per argument and per parameter *)
Theorem C19_binds_spec : forall sig c, binds sig c = true <-> Binds sig c.
Proof. exact binds_spec. Qed.
Print Assumptions C19_binds_spec.

(* a positive answer of the procedure covers ALL call forms: any number of positional arguments,
   any keyword names *)
Theorem C19_subsumes_sound : forall w o, wf_sig w -> wf_sig o -> sig_subsumes w o = true ->
  forall c, NoDup (c_kws c) -> binds o c = true -> binds w c = true.
Proof. exact subsumes_sound. Qed.
Print Assumptions C19_subsumes_sound.

(* the same without side conditions, and as an equivalence: the procedure is exact *)
Theorem C19_subsumes_exact : forall w o,
  sig_subsumes w o = true <-> (forall c, binds o c = true -> binds w c = true).
Proof. exact subsumes_iff. Qed.
Print Assumptions C19_subsumes_exact.

(* a negative answer comes with a call form the original accepts and the substitute rejects *)
Theorem C19_witness_sound : forall w o c,
  subsumes_witness w o = Some c -> binds o c = true /\ binds w c = false.
Proof. exact witness_sound. Qed.
Print Assumptions C19_witness_sound.

Theorem C19_witness_is_a_legal_call : forall w o c,
  subsumes_witness w o = Some c -> NoDup (c_kws c).
Proof. exact witness_nodup. Qed.
Print Assumptions C19_witness_is_a_legal_call.

Theorem C19_subsumes_complete : forall w o, sig_subsumes w o = false ->
  exists c, subsumes_witness w o = Some c /\ NoDup (c_kws c) /\ binds o c = true /\ binds w c = false.
Proof. exact subsumes_complete. Qed.
Print Assumptions C19_subsumes_complete.

(* all probes that are counterexamples: each is one, and there is none exactly when the procedure says yes *)
Theorem C19_all_witnesses_sound : forall w o c,
  In c (all_witnesses w o) -> NoDup (c_kws c) /\ binds o c = true /\ binds w c = false.
Proof. exact all_witnesses_sound. Qed.
Print Assumptions C19_all_witnesses_sound.

Theorem C19_all_witnesses_nil_iff : forall w o, all_witnesses w o = nil <-> sig_subsumes w o = true.
Proof. exact all_witnesses_nil_iff. Qed.
Print Assumptions C19_all_witnesses_nil_iff.

(* a substitute that forwards ( *args, **kwargs ) never rejects at binding time *)
Theorem C19_forwarding_substitute_accepts_all : forall o, sig_subsumes ex_star o = true.
Proof. exact star_subsumes_all. Qed.
Print Assumptions C19_forwarding_substitute_accepts_all.
