(* C19 — library calls keep their call signature while being traced.
   Only statements here; model and proofs live in theories/PySig.v.  The signatures themselves are not
   modelled: harness/c19.py reads them with inspect.signature from the installed originals and from the
   substitutes the converter installs on this run, and evaluates the proved procedure on every pair. *)
From Coq Require Import String List.
From J2O Require Import PySig.

(* the binder model says what PEP 3102/570 says, per argument and per parameter *)
Theorem C19_binds_spec : forall sig c, binds sig c = true <-> Binds sig c.
Proof. exact binds_spec. Qed.
Print Assumptions C19_binds_spec.

(* a positive answer of the procedure covers ALL call forms: any number of positional arguments,
   any keyword names *)
Theorem C19_subsumes_sound : forall w o, wf_sig w -> wf_sig o -> sig_subsumes w o = true ->
  forall c, NoDup (c_kws c) -> binds o c = true -> binds w c = true.
Proof. exact subsumes_sound. Qed.
Print Assumptions C19_subsumes_sound.

(* the same without side conditions, and as an equivalence: the procedure is exact *)
Theorem C19_subsumes_exact : forall w o,
  sig_subsumes w o = true <-> (forall c, binds o c = true -> binds w c = true).
Proof. exact subsumes_iff. Qed.
Print Assumptions C19_subsumes_exact.

(* a negative answer comes with a call form the original accepts and the substitute rejects *)
Theorem C19_witness_sound : forall w o c,
  subsumes_witness w o = Some c -> binds o c = true /\ binds w c = false.
Proof. exact witness_sound. Qed.
Print Assumptions C19_witness_sound.

Theorem C19_witness_is_a_legal_call : forall w o c,
  subsumes_witness w o = Some c -> NoDup (c_kws c).
Proof. exact witness_nodup. Qed.
Print Assumptions C19_witness_is_a_legal_call.

Theorem C19_subsumes_complete : forall w o, sig_subsumes w o = false ->
  exists c, subsumes_witness w o = Some c /\ NoDup (c_kws c) /\ binds o c = true /\ binds w c = false.
Proof. exact subsumes_complete. Qed.
Print Assumptions C19_subsumes_complete.

(* all probes that are counterexamples: each is one, and there is none exactly when the procedure says yes *)
Theorem C19_all_witnesses_sound : forall w o c,
  In c (all_witnesses w o) -> NoDup (c_kws c) /\ binds o c = true /\ binds w c = false.
Proof. exact all_witnesses_sound. Qed.
Print Assumptions C19_all_witnesses_sound.

Theorem C19_all_witnesses_nil_iff : forall w o, all_witnesses w o = nil <-> sig_subsumes w o = true.
Proof. exact all_witnesses_nil_iff. Qed.
Print Assumptions C19_all_witnesses_nil_iff.

(* a substitute that forwards ( *args, **kwargs ) never rejects at binding time *)
Theorem C19_forwarding_substitute_accepts_all : forall o, sig_subsumes ex_star o = true.
Proof. exact star_subsumes_all. Qed.
Print Assumptions C19_forwarding_substitute_accepts_all.

(* ---- the call-signature adapter (model of jax2onnx.plugins._patching.plan_call, tied to it by the harness) *)
(* a call the substitute accepts today is passed on unchanged *)
Theorem C19_adapter_conservative : forall w o dflt c, binds w c = true -> adapter w o dflt c = Direct.
Proof. exact adapter_conservative. Qed.
Print Assumptions C19_adapter_conservative.

(* with the adapter installed, no call form the original accepts fails at binding *)
Theorem C19_adapter_accepts : forall w o dflt c, binds o c = true ->
  adapter w o dflt c = Direct \/ adapter w o dflt c = Original \/ exists c' d, adapter w o dflt c = Routed c' d.
Proof. exact adapter_total. Qed.
Print Assumptions C19_adapter_accepts.

(* only a call neither signature accepts is left to the substitute's own TypeError *)
Theorem C19_adapter_foreign : forall w o dflt c,
  adapter w o dflt c = Foreign -> binds o c = false /\ binds w c = false.
Proof. exact adapter_foreign. Qed.
Print Assumptions C19_adapter_foreign.

(* a re-routed call is a legal call form the substitute accepts; every argument is delivered exactly once or
   dropped, and an argument is dropped only when its value is the original's default *)
Theorem C19_adapter_routed : forall w o dflt c c' d,
  adapter w o dflt c = Routed c' d ->
  binds o c = true /\ binds w c = false /\ binds w c' = true /\ NoDup (c_kws c') /\
  c_npos c' + length (c_kws c') + length d = c_npos c + length (c_kws c) /\
  (forall a, In a d -> dflt a = true).
Proof. exact adapter_routed. Qed.
Print Assumptions C19_adapter_routed.
