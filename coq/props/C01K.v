(* C01K — exact kernels of C01 (exported model computes the same function as the JAX callable):
   for the primitives whose semantics are exact, the operator graph the plugin emits (lowered_k, tied to the
   real exports by harness/c01k.py) computes the JAX function (jax_k, tied to eager JAX) for EVERY in-range input.
   Only statements here; definitions and proofs live in theories/OnnxInt.v and theories/Kernels.v.
   Integers of type sb = (signed?, bits) are the mathematical integers of [int_lo sb, int_hi sb]; the
   theorems are generic in the bit width.  *_refuted / *_partial / *_iff: the statement at full strength is false
   of the unchanged plugin (witness), and holds exactly / at least on the stated domain. *)
From Coq Require Import ZArith Bool List.
From J2O Require Import PyLib Dtype Tensor Batch Reshape Graph Lowering LoweringSem OnnxInt Kernels Lift LiftProg LiftReduce LiftCall LiftStruct LiftDyn.
From J2O Require FloatSpecial.
Import ListNotations.
Open Scope Z_scope.

(* ---------------------------------------------------------------- ring operations *)
Theorem C01K_add_correct : forall sb x y, lowered_add sb x y = jax_add sb x y.
Proof. exact add_correct. Qed.
Print Assumptions C01K_add_correct.
Theorem C01K_sub_correct : forall sb x y, lowered_sub sb x y = jax_sub sb x y.
Proof. exact sub_correct. Qed.
Print Assumptions C01K_sub_correct.
Theorem C01K_mul_correct : forall sb x y, lowered_mul sb x y = jax_mul sb x y.
Proof. exact mul_correct. Qed.
Print Assumptions C01K_mul_correct.
(* lax.neg — the lowering of /repo since f821443: Neg on signed types, Sub(0, x) on unsigned ones *)
Theorem C01K_neg_correct : forall sb x, 0 < snd sb -> in_int sb x -> lowered_neg sb x = jax_neg sb x.
Proof. exact neg_correct. Qed.
Print Assumptions C01K_neg_correct.
(* history (fixed finding): before f821443 unsigned types got ONNX Neg, which has no unsigned variant *)
Theorem C01K_neg_unsigned_outside_onnx_domain : forall sb, is_signed sb = false -> ~ neg_dom sb.
Proof. exact neg_unsigned_outside_onnx_domain. Qed.
Print Assumptions C01K_neg_unsigned_outside_onnx_domain.
Theorem C01K_abs_correct : forall sb x, 0 < snd sb -> is_signed sb = true -> in_int sb x -> lowered_abs sb x = jax_abs sb x.
Proof. exact abs_correct. Qed.
Print Assumptions C01K_abs_correct.
Theorem C01K_sign_correct : forall sb x, 0 < snd sb -> in_int sb x -> lowered_sign sb x = jax_sign sb x.
Proof. exact sign_correct. Qed.
Print Assumptions C01K_sign_correct.

(* ---------------------------------------------------------------- division family *)
Theorem C01K_div_correct : forall sb x y, 0 < snd sb -> in_int sb x -> in_int sb y -> div_dom sb x y ->
  lowered_div sb x y = jax_div sb x y.
Proof. exact div_correct. Qed.
Print Assumptions C01K_div_correct.
Theorem C01K_rem_correct : forall sb x y, 0 < snd sb -> in_int sb x -> in_int sb y -> y <> 0 ->
  lowered_rem sb x y = jax_rem sb x y.
Proof. exact rem_correct. Qed.
Print Assumptions C01K_rem_correct.
Theorem C01K_floor_divide_correct : forall sb x y, 0 < snd sb -> in_int sb x -> in_int sb y -> div_dom sb x y ->
  lowered_floor_divide sb x y = jax_floor_divide sb x y.
Proof. exact floor_divide_correct. Qed.
Print Assumptions C01K_floor_divide_correct.
Theorem C01K_mod_correct : forall sb x y, 0 < snd sb -> in_int sb 1 -> in_int sb x -> in_int sb y ->
  lowered_mod sb x y = jax_mod sb x y.
Proof. exact mod_correct. Qed.
Print Assumptions C01K_mod_correct.
Theorem C01K_fmod_correct : forall sb x y, 0 < snd sb -> in_int sb 1 -> in_int sb x -> in_int sb y ->
  lowered_fmod sb x y = jax_fmod sb x y.
Proof. exact fmod_correct. Qed.
Print Assumptions C01K_fmod_correct.

(* ---------------------------------------------------------------- order *)
Theorem C01K_max_correct : forall x y, lowered_max x y = jax_max x y.
Proof. exact max_correct. Qed.
Print Assumptions C01K_max_correct.
Theorem C01K_min_correct : forall x y, lowered_min x y = jax_min x y.
Proof. exact min_correct. Qed.
Print Assumptions C01K_min_correct.
Theorem C01K_clamp_correct : forall x lo hi, lowered_clamp x lo hi = jax_clamp x lo hi.
Proof. exact clamp_correct. Qed.
Print Assumptions C01K_clamp_correct.
Theorem C01K_clamp_spec : forall x lo hi, lo <= hi ->
  lowered_clamp x lo hi = if x <? lo then lo else if hi <? x then hi else x.
Proof. exact clamp_spec. Qed.
Print Assumptions C01K_clamp_spec.
Theorem C01K_clamp_lo_gt_hi : forall x lo hi, hi < lo -> lowered_clamp x lo hi = hi.
Proof. exact clamp_lo_gt_hi. Qed.
Print Assumptions C01K_clamp_lo_gt_hi.
Theorem C01K_clip_correct : forall x lo hi, lowered_clip x lo hi = jax_clip x lo hi.
Proof. exact clip_correct. Qed.
Print Assumptions C01K_clip_correct.
(* jax.nn.relu — the lowering of /repo since cc0a643: the Relu operator on signed types, Identity on unsigned ones *)
Theorem C01K_relu_correct : forall sb x, in_int sb x -> lowered_relu sb x = jax_relu x.
Proof. exact relu_correct. Qed.
Print Assumptions C01K_relu_correct.
(* history (fixed finding): before cc0a643 unsigned operands got Relu, which has no unsigned variant *)
Theorem C01K_relu_unsigned_outside_onnx_domain : forall sb, is_signed sb = false -> ~ relu_dom sb.
Proof. exact relu_unsigned_outside_onnx_domain. Qed.
Print Assumptions C01K_relu_unsigned_outside_onnx_domain.
Theorem C01K_relu6_correct : forall x, lowered_relu6 x = jax_relu6 x.
Proof. exact relu6_correct. Qed.
Print Assumptions C01K_relu6_correct.

(* ---------------------------------------------------------------- selection *)
Theorem C01K_select_n_correct : forall p c0 c1, lowered_select_n p c0 c1 = jax_select_n p c0 c1.
Proof. exact select_n_correct. Qed.
Print Assumptions C01K_select_n_correct.
Theorem C01K_select_n_bool_cases_correct : forall p c0 c1, lowered_select_n_b p c0 c1 = jax_select_n_b p c0 c1.
Proof. exact select_n_b_correct. Qed.
Print Assumptions C01K_select_n_bool_cases_correct.
Theorem C01K_select_n_int_correct : forall p c0 c1, p = 0 \/ p = 1 ->
  lowered_select_n_int p c0 c1 = jax_select_n_int p c0 c1.
Proof. exact select_n_int_correct. Qed.
Print Assumptions C01K_select_n_int_correct.
Theorem C01K_where_correct : forall p x y, lowered_where p x y = jax_where p x y.
Proof. exact where_correct. Qed.
Print Assumptions C01K_where_correct.
Theorem C01K_where_bool_correct : forall p x y, lowered_where_b p x y = jax_where_b p x y.
Proof. exact where_b_correct. Qed.
Print Assumptions C01K_where_bool_correct.

(* ---------------------------------------------------------------- logic *)
Theorem C01K_bool_and_correct : forall a b, lowered_bool_and a b = jax_bool_and a b.
Proof. exact bool_and_correct. Qed.
Print Assumptions C01K_bool_and_correct.
Theorem C01K_bool_or_correct : forall a b, lowered_bool_or a b = jax_bool_or a b.
Proof. exact bool_or_correct. Qed.
Print Assumptions C01K_bool_or_correct.
Theorem C01K_bool_xor_correct : forall a b, lowered_bool_xor a b = jax_bool_xor a b.
Proof. exact bool_xor_correct. Qed.
Print Assumptions C01K_bool_xor_correct.
Theorem C01K_bool_not_correct : forall a, lowered_bool_not a = jax_bool_not a.
Proof. exact bool_not_correct. Qed.
Print Assumptions C01K_bool_not_correct.
Theorem C01K_bitand_correct : forall sb x y, lowered_bitand sb x y = jax_bitand sb x y.
Proof. exact bitand_correct. Qed.
Print Assumptions C01K_bitand_correct.
Theorem C01K_bitor_correct : forall sb x y, lowered_bitor sb x y = jax_bitor sb x y.
Proof. exact bitor_correct. Qed.
Print Assumptions C01K_bitor_correct.
Theorem C01K_bitxor_correct : forall sb x y, lowered_bitxor sb x y = jax_bitxor sb x y.
Proof. exact bitxor_correct. Qed.
Print Assumptions C01K_bitxor_correct.
Theorem C01K_bitnot_correct : forall sb x, 0 < snd sb -> in_int sb x -> lowered_bitnot sb x = jax_bitnot sb x.
Proof. exact bitnot_correct. Qed.
Print Assumptions C01K_bitnot_correct.

(* ---------------------------------------------------------------- shifts *)
(* the lowerings of /repo since df7c8d6 (signed types: Cast to the unsigned twin, BitShift, Cast back) and
   0f3d227 (unsigned arithmetic shift: logical shift OR-ed with the replicated top bit) *)
Theorem C01K_shift_left_correct : forall sb x s, 0 < snd sb -> in_int sb s -> 0 <= s ->
  lowered_shift_left sb x s = jax_shift_left sb x s.
Proof. exact shift_left_correct. Qed.
Print Assumptions C01K_shift_left_correct.
Theorem C01K_shift_right_logical_correct : forall sb x s, 0 < snd sb -> in_int sb x -> in_int sb s -> 0 <= s ->
  lowered_shift_right_logical sb x s = jax_shift_right_logical sb x s.
Proof. exact shift_right_logical_correct. Qed.
Print Assumptions C01K_shift_right_logical_correct.
Theorem C01K_shift_right_arithmetic_correct : forall sb x s, 0 < snd sb -> in_int sb x -> in_int sb s -> 0 <= s ->
  lowered_shift_right_arithmetic sb x s = jax_shift_right_arithmetic sb x s.
Proof. exact shift_right_arithmetic_correct. Qed.
Print Assumptions C01K_shift_right_arithmetic_correct.
Theorem C01K_shift_right_arithmetic_signed_correct : forall sb x s,
  0 < snd sb -> is_signed sb = true -> in_int sb x -> in_int sb s -> 0 <= s ->
  lowered_sra_signed sb x s = jax_shift_right_arithmetic sb x s.
Proof. exact sra_signed_correct. Qed.
Print Assumptions C01K_shift_right_arithmetic_signed_correct.
(* history (fixed findings): before df7c8d6 signed shift_left / shift_right_logical emitted BitShift, which is unsigned-only;
   before 0f3d227 the unsigned arithmetic shift was a logical shift although JAX replicates the top bit *)
Theorem C01K_shift_signed_outside_onnx_domain : forall sb, is_signed sb = true -> ~ shift_dom sb.
Proof. exact shift_signed_outside_onnx_domain. Qed.
Print Assumptions C01K_shift_signed_outside_onnx_domain.
Theorem C01K_shift_right_arithmetic_unsigned_prerepair_refuted :
  exists x s, in_int U8 x /\ 0 <= s /\ prerepair_sra_unsigned U8 x s <> jax_shift_right_arithmetic U8 x s.
Proof. exact sra_unsigned_prerepair_refuted. Qed.
Print Assumptions C01K_shift_right_arithmetic_unsigned_prerepair_refuted.
Theorem C01K_shift_right_arithmetic_unsigned_prerepair_partial : forall sb x s,
  0 < snd sb -> shift_dom sb -> 0 <= x < 2 ^ (snd sb - 1) -> 0 <= s ->
  prerepair_sra_unsigned sb x s = jax_shift_right_arithmetic sb x s.
Proof. exact sra_unsigned_prerepair_partial. Qed.
Print Assumptions C01K_shift_right_arithmetic_unsigned_prerepair_partial.

(* ---------------------------------------------------------------- comparisons *)
Theorem C01K_eq_correct : forall x y, lowered_eq x y = jax_eq x y. Proof. exact eq_correct. Qed.
Print Assumptions C01K_eq_correct.
Theorem C01K_ne_correct : forall x y, lowered_ne x y = jax_ne x y. Proof. exact ne_correct. Qed.
Print Assumptions C01K_ne_correct.
Theorem C01K_lt_correct : forall x y, lowered_lt x y = jax_lt x y. Proof. exact lt_correct. Qed.
Print Assumptions C01K_lt_correct.
Theorem C01K_le_correct : forall x y, lowered_le x y = jax_le x y. Proof. exact le_correct. Qed.
Print Assumptions C01K_le_correct.
Theorem C01K_gt_correct : forall x y, lowered_gt x y = jax_gt x y. Proof. exact gt_correct. Qed.
Print Assumptions C01K_gt_correct.
Theorem C01K_ge_correct : forall x y, lowered_ge x y = jax_ge x y. Proof. exact ge_correct. Qed.
Print Assumptions C01K_ge_correct.
Theorem C01K_eq_bool_correct : forall a b, lowered_eq_b a b = jax_eq_b a b. Proof. exact eq_b_correct. Qed.
Print Assumptions C01K_eq_bool_correct.
Theorem C01K_ne_bool_correct : forall a b, lowered_ne_b a b = jax_ne_b a b. Proof. exact ne_b_correct. Qed.
Print Assumptions C01K_ne_bool_correct.

(* ---------------------------------------------------------------- rounding (exact fractions n/d, d > 0) *)
Theorem C01K_floor_correct : forall q, frac_ok q -> lowered_floor q = jax_floor q.
Proof. exact floor_correct. Qed.
Print Assumptions C01K_floor_correct.
Theorem C01K_ceil_correct : forall q, frac_ok q -> lowered_ceil q = jax_ceil q.
Proof. exact ceil_correct. Qed.
Print Assumptions C01K_ceil_correct.
Theorem C01K_round_even_correct : forall q, frac_ok q -> lowered_round q = jax_round_even q.
Proof. exact round_even_correct. Qed.
Print Assumptions C01K_round_even_correct.
(* lax.round, AWAY_FROM_ZERO (the lax default) — the lowering of /repo since 3fcaa9c:
   Where(Equal(Sub(Abs x, Floor(Abs x)), 0.5), Mul(Sign x, Add(Floor(Abs x), 1)), Round x) *)
Theorem C01K_round_away_correct : forall q, frac_ok q -> lowered_round_away q = jax_round_away q.
Proof. exact round_away_correct. Qed.
Print Assumptions C01K_round_away_correct.
(* history (fixed finding): before 3fcaa9c the plugin ignored rounding_method and emitted Round alone; the statement
     forall q, frac_ok q -> lowered_round q = jax_round_away q
   is false (0.5 -> 0 instead of 1) and holds exactly where the two rounding modes agree *)
Theorem C01K_round_away_prerepair_refuted : exists q, frac_ok q /\ lowered_round q <> jax_round_away q.
Proof. exact round_away_prerepair_refuted. Qed.
Print Assumptions C01K_round_away_prerepair_refuted.
Theorem C01K_round_away_prerepair_iff : forall q, frac_ok q ->
  (lowered_round q = jax_round_away q <-> round_modes_agree q = true).
Proof. exact round_away_prerepair_iff. Qed.
Print Assumptions C01K_round_away_prerepair_iff.
Theorem C01K_round_away_prerepair_partial : forall q, frac_ok q -> round_modes_agree q = true ->
  lowered_round q = jax_round_away q.
Proof. exact round_away_prerepair_partial. Qed.
Print Assumptions C01K_round_away_prerepair_partial.

(* ---------------------------------------------------------------- integer_pow, convert_element_type *)
(* lax.integer_pow on integers — the lowering of /repo since 48bcbc4 / 22a5583: repeated Mul; exponent 0 is Add(Mul(x, 0), 1) *)
Theorem C01K_integer_pow_correct : forall sb x n, 0 < snd sb -> in_int sb x ->
  lowered_integer_pow sb x n = jax_integer_pow sb x n.
Proof. exact integer_pow_correct. Qed.
Print Assumptions C01K_integer_pow_correct.
(* history (fixed finding): before 48bcbc4 Pow was emitted, which has no int8 / int16 / unsigned base *)
Theorem C01K_integer_pow_outside_onnx_domain : forall sb, In sb [I8; I16; U8; U16; U32; U64] -> ~ pow_dom sb.
Proof. exact integer_pow_outside_onnx_domain. Qed.
Print Assumptions C01K_integer_pow_outside_onnx_domain.
Theorem C01K_convert_int_correct : forall t x, lowered_convert_int t x = jax_convert_int t x.
Proof. exact convert_int_correct. Qed.
Print Assumptions C01K_convert_int_correct.
Theorem C01K_convert_int_spec : forall t x, 0 < snd t ->
  in_int t (lowered_convert_int t x) /\ (lowered_convert_int t x) mod 2 ^ snd t = x mod 2 ^ snd t /\
  (in_int t x -> lowered_convert_int t x = x).
Proof. exact convert_int_spec. Qed.
Print Assumptions C01K_convert_int_spec.
Theorem C01K_convert_to_bool_correct : forall x, lowered_convert_to_bool x = jax_convert_to_bool x.
Proof. exact convert_to_bool_correct. Qed.
Print Assumptions C01K_convert_to_bool_correct.
Theorem C01K_convert_of_bool_correct : forall t b, lowered_convert_of_bool t b = jax_convert_of_bool t b.
Proof. exact convert_of_bool_correct. Qed.
Print Assumptions C01K_convert_of_bool_correct.

(* ---------------------------------------------------------------- one_hot *)
(* the lowering of /repo since ef51d4a: OneHot(Where(Less(i, 0), depth, i), depth, [0, 1]) for signed index types,
   OneHot(i, ...) for unsigned ones — correct for EVERY index, in particular negative and >= n (all zeros) *)
Theorem C01K_one_hot_correct : forall sb n i j, In sb std_itys -> sb <> U64 -> in_int sb i -> 0 < n -> 0 <= j < n ->
  lowered_one_hot sb n i j = jax_one_hot n i j.
Proof. exact one_hot_correct. Qed.
Print Assumptions C01K_one_hot_correct.
(* history (fixed finding): before ef51d4a the index went to OneHot unmasked; the statement
     forall i j, ... -> prerepair_one_hot sb n i j = jax_one_hot n i j
   is false: one_hot(-1, 4) sets class 3 *)
Theorem C01K_one_hot_prerepair_refuted :
  exists i j, in_int I32 i /\ 0 <= j < 4 /\ prerepair_one_hot I32 4 i j <> jax_one_hot 4 i j.
Proof. exact one_hot_prerepair_refuted. Qed.
Print Assumptions C01K_one_hot_prerepair_refuted.
Theorem C01K_one_hot_prerepair_iff : forall sb n i j, In sb std_itys -> sb <> U64 -> in_int sb i -> 0 < n -> 0 <= j < n ->
  (prerepair_one_hot sb n i j = jax_one_hot n i j <-> ~ (- n <= i < 0 /\ i + n = j)).
Proof. exact one_hot_prerepair_iff. Qed.
Print Assumptions C01K_one_hot_prerepair_iff.
Theorem C01K_one_hot_prerepair_partial : forall sb n i j, In sb std_itys -> sb <> U64 -> in_int sb i -> 0 < n -> 0 <= j < n ->
  (0 <= i \/ i < - n) -> prerepair_one_hot sb n i j = jax_one_hot n i j.
Proof. exact one_hot_prerepair_partial. Qed.
Print Assumptions C01K_one_hot_prerepair_partial.

(* ---------------------------------------------------------------- dynamic_slice start index *)
(* the lowering of /repo since 7604d8b: Slice(x, st, st + size) with st = Min(Max(start, 0), dim - size) —
   the window JAX takes for EVERY start index (negative, past the end, INT_MIN, INT_MAX) *)
Theorem C01K_dynamic_slice_correct : forall sb dim size i,
  sb = I32 \/ sb = I64 -> in_int sb i -> 1 <= size <= dim -> dim < 2 ^ 31 ->
  lowered_dynamic_slice sb dim size i = jax_dynamic_slice sb dim size i.
Proof. exact dynamic_slice_correct. Qed.
Print Assumptions C01K_dynamic_slice_correct.
(* history (fixed finding): before 7604d8b the start was not clamped; the statement
     forall i, ... -> prerepair_dynamic_slice sb dim size i = jax_dynamic_slice sb dim size i
   is false: start 5 of a size-3 window over 6 elements gives 1 element (JAX clamps to start 3) *)
Theorem C01K_dynamic_slice_prerepair_refuted :
  exists i, in_int I32 i /\ prerepair_dynamic_slice I32 6 3 i <> jax_dynamic_slice I32 6 3 i.
Proof. exact dynamic_slice_prerepair_refuted. Qed.
Print Assumptions C01K_dynamic_slice_prerepair_refuted.
Theorem C01K_dynamic_slice_prerepair_partial : forall sb dim size i,
  sb = I32 \/ sb = I64 -> in_int sb i -> 1 <= size <= dim -> dim < 2 ^ 31 ->
  (0 <= i <= dim - size \/ - dim <= i <= - size) ->
  prerepair_dynamic_slice sb dim size i = jax_dynamic_slice sb dim size i.
Proof. exact dynamic_slice_prerepair_partial. Qed.
Print Assumptions C01K_dynamic_slice_prerepair_partial.

(* ---------------------------------------------------------------- the operator semantics the above rests on *)
Theorem C01K_onnx_mod_is_floor_mod : forall sb x y, 0 < snd sb -> in_int sb x -> in_int sb y -> y <> 0 ->
  o_mod sb false x y = x mod y.
Proof. exact o_mod_floor. Qed.
Print Assumptions C01K_onnx_mod_is_floor_mod.
Theorem C01K_onnx_fmod_is_trunc_rem : forall sb x y, 0 < snd sb -> in_int sb x -> in_int sb y -> y <> 0 ->
  o_mod sb true x y = Z.rem x y.
Proof. exact o_mod_trunc. Qed.
Print Assumptions C01K_onnx_fmod_is_trunc_rem.
Theorem C01K_onnx_round_is_nearest : forall n d, 0 < d -> - d <= 2 * (n - o_round (n, d) * d) <= d.
Proof. exact o_round_nearest. Qed.
Print Assumptions C01K_onnx_round_is_nearest.
Theorem C01K_onnx_round_ties_to_even : forall n d, 0 < d -> 2 * (n mod d) = d -> Z.even (o_round (n, d)) = true.
Proof. exact o_round_tie_even. Qed.
Print Assumptions C01K_onnx_round_ties_to_even.

(* ================================================================ from scalars to tensors and whole programs (Lift.v, LiftProg.v) *)
(* ---- (b) broadcast algebra, all ranks and extents *)
Theorem C01K_balign_compose : forall s t idx, bsub s t -> (length t <= length idx)%nat -> balign s (balign t idx) = balign s idx.
Proof. exact balign_compose. Qed.
Print Assumptions C01K_balign_compose.
Theorem C01K_bcast_shape_is_lub : forall s t u, bsub s u -> bsub t u -> bsub (bcast_shape s t) u.
Proof. exact bsub_bcast_lub. Qed.
Print Assumptions C01K_bcast_shape_is_lub.
Theorem C01K_bcast_shape_upper_bound : forall s t, bcompat s t -> bsub s (bcast_shape s t) /\ bsub t (bcast_shape s t).
Proof. intros s t H. split; [apply bsub_bcast_l | now apply bsub_bcast_r]. Qed.
Print Assumptions C01K_bcast_shape_upper_bound.
Theorem C01K_tmap2b_tmap2b_l : forall (A : Type) (d : A) (f g : A -> A -> A) (X Y Z : tensor A) u,
  bcommon [shape X; shape Y; shape Z] u ->
  teq (tmap2b f (tmap2b g X Y) Z) (tmap3b (fun x y z => f (g x y) z) X Y Z).
Proof. exact tmap2b_tmap2b_l. Qed.
Print Assumptions C01K_tmap2b_tmap2b_l.
Theorem C01K_tmap2b_tmap2b_r : forall (A : Type) (d : A) (f g : A -> A -> A) (X Y Z : tensor A) u,
  bcommon [shape X; shape Y; shape Z] u ->
  teq (tmap2b f X (tmap2b g Y Z)) (tmap3b (fun x y z => f x (g y z)) X Y Z).
Proof. exact tmap2b_tmap2b_r. Qed.
Print Assumptions C01K_tmap2b_tmap2b_r.
Theorem C01K_tmap2b_shared_operand : forall (A : Type) (d : A) (f g : A -> A -> A) (X Y : tensor A),
  bcompat (shape X) (shape Y) -> teq (tmap2b f X (tmap2b g X Y)) (tmap2b (fun x y => f x (g x y)) X Y).
Proof. exact tmap2b_shared. Qed.
Print Assumptions C01K_tmap2b_shared_operand.
Theorem C01K_tmap2b_scalar_constant : forall (A : Type) (f : A -> A -> A) (X : tensor A) (c : A),
  teq (tmap2b f X (tscalar c)) (tmap (fun x => f x c) X) /\ teq (tmap2b f (tscalar c) X) (tmap (fun x => f c x) X).
Proof. intros. split; [apply tmap2b_const_r | apply tmap2b_const_l]. Qed.
Print Assumptions C01K_tmap2b_scalar_constant.
Theorem C01K_tmap2b_ones_constant : forall (A : Type) (f : A -> A -> A) (X : tensor A) (c : A) k, (k <= rank X)%nat ->
  teq (tmap2b f X (mkT (repeat 1%nat k) (fun _ => c))) (tmap (fun x => f x c) X).
Proof. exact tmap2b_ones_r. Qed.
Print Assumptions C01K_tmap2b_ones_constant.

(* ---- (c) the lifting theorem, once for every operator graph *)
Theorem C01K_keval_lift : forall (A O1 O2 O3 : Type) (s1 : O1 -> A -> A) (s2 : O2 -> A -> A -> A) (s3 : O3 -> A -> A -> A -> A)
    (dflt : A) (e : kexpr A O1 O2 O3) (Xs : list (tensor A)),
  kwf e (map (@shape A) Xs) ->
  forall idx, (length (kshape e (map (@shape A) Xs)) <= length idx)%nat ->
  bcast_at (keval_t s1 s2 s3 dflt e Xs) idx = keval_s s1 s2 s3 dflt e (map (fun X => bcast_at X idx) Xs).
Proof. exact keval_lift. Qed.
Print Assumptions C01K_keval_lift.
Theorem C01K_keval_t_is_elementwise_map : forall (A O1 O2 O3 : Type) (s1 : O1 -> A -> A) (s2 : O2 -> A -> A -> A)
    (s3 : O3 -> A -> A -> A -> A) (dflt : A) (e : kexpr A O1 O2 O3) (Xs : list (tensor A)) u,
  bcommon (map (@shape A) Xs) u -> (forall i, (i < length Xs)%nat -> kuses i e) ->
  teq (keval_t s1 s2 s3 dflt e Xs) (tmapN (keval_s s1 s2 s3 dflt e) Xs).
Proof. exact keval_t_tmapN. Qed.
Print Assumptions C01K_keval_t_is_elementwise_map.
(* the kernels' graphs ARE lowered_k (a few; all of them are in Lift.v as ke_<k>_sound, by computation) *)
Theorem C01K_ke_rem_sound : forall sb x y, kev_s (ke_rem sb) [VZ x; VZ y] = VZ (lowered_rem sb x y).
Proof. exact ke_rem_sound. Qed.
Print Assumptions C01K_ke_rem_sound.
Theorem C01K_ke_mod_sound : forall sb x y, kev_s (ke_mod sb) [VZ x; VZ y] = VZ (lowered_mod sb x y).
Proof. exact ke_mod_sound. Qed.
Print Assumptions C01K_ke_mod_sound.
Theorem C01K_ke_shift_right_arithmetic_sound : forall sb x s,
  kev_s (ke_shift_right_arithmetic sb) [VZ x; VZ s] = VZ (lowered_shift_right_arithmetic sb x s).
Proof. exact ke_shift_right_arithmetic_sound. Qed.
Print Assumptions C01K_ke_shift_right_arithmetic_sound.
Theorem C01K_ke_round_away_sound : forall q, kev_s ke_round_away [VQ q] = VZ (lowered_round_away q).
Proof. exact ke_round_away_sound. Qed.
Print Assumptions C01K_ke_round_away_sound.

(* the lifted kernel theorems: the tensor-level value of the emitted graph on broadcast-compatible operands is the
   elementwise JAX function with numpy broadcasting (zt / bt / qt inject integer / boolean / fraction tensors) *)
Theorem C01K_add_lifted : forall sb X Y, bcompat (shape X) (shape Y) ->
  teq (kev_t (ke_add sb) [zt X; zt Y]) (zt (tmap2b (jax_add sb) X Y)).
Proof. exact add_lifted. Qed.
Print Assumptions C01K_add_lifted.
Theorem C01K_sub_lifted : forall sb X Y, bcompat (shape X) (shape Y) ->
  teq (kev_t (ke_sub sb) [zt X; zt Y]) (zt (tmap2b (jax_sub sb) X Y)).
Proof. exact sub_lifted. Qed.
Print Assumptions C01K_sub_lifted.
Theorem C01K_mul_lifted : forall sb X Y, bcompat (shape X) (shape Y) ->
  teq (kev_t (ke_mul sb) [zt X; zt Y]) (zt (tmap2b (jax_mul sb) X Y)).
Proof. exact mul_lifted. Qed.
Print Assumptions C01K_mul_lifted.
Theorem C01K_neg_lifted : forall sb, 0 < snd sb -> forall X, tdom1 (in_int sb) X ->
  teq (kev_t (ke_neg sb) [zt X]) (zt (tmap (jax_neg sb) X)).
Proof. exact neg_lifted. Qed.
Print Assumptions C01K_neg_lifted.
Theorem C01K_abs_lifted : forall sb, 0 < snd sb -> forall X, is_signed sb = true -> tdom1 (in_int sb) X ->
  teq (kev_t (ke_abs sb) [zt X]) (zt (tmap (jax_abs sb) X)).
Proof. exact abs_lifted. Qed.
Print Assumptions C01K_abs_lifted.
Theorem C01K_sign_lifted : forall sb, 0 < snd sb -> forall X, tdom1 (in_int sb) X ->
  teq (kev_t (ke_sign sb) [zt X]) (zt (tmap (jax_sign sb) X)).
Proof. exact sign_lifted. Qed.
Print Assumptions C01K_sign_lifted.
Theorem C01K_div_lifted : forall sb, 0 < snd sb -> forall X Y, bcompat (shape X) (shape Y) ->
  tdom2 (fun x y => in_int sb x /\ in_int sb y /\ div_dom sb x y) X Y ->
  teq (kev_t (ke_div sb) [zt X; zt Y]) (zt (tmap2b (jax_div sb) X Y)).
Proof. exact div_lifted. Qed.
Print Assumptions C01K_div_lifted.
Theorem C01K_rem_lifted : forall sb, 0 < snd sb -> forall X Y, bcompat (shape X) (shape Y) ->
  tdom2 (fun x y => in_int sb x /\ in_int sb y /\ y <> 0) X Y ->
  teq (kev_t (ke_rem sb) [zt X; zt Y]) (zt (tmap2b (jax_rem sb) X Y)).
Proof. exact rem_lifted. Qed.
Print Assumptions C01K_rem_lifted.
Theorem C01K_floor_divide_lifted : forall sb, 0 < snd sb -> forall X Y, bcompat (shape X) (shape Y) ->
  tdom2 (fun x y => in_int sb x /\ in_int sb y /\ div_dom sb x y) X Y ->
  teq (kev_t (ke_floor_divide sb) [zt X; zt Y]) (zt (tmap2b (jax_floor_divide sb) X Y)).
Proof. exact floor_divide_lifted. Qed.
Print Assumptions C01K_floor_divide_lifted.
Theorem C01K_mod_lifted : forall sb, 0 < snd sb -> forall X Y, in_int sb 1 -> bcompat (shape X) (shape Y) ->
  tdom2 (fun x y => in_int sb x /\ in_int sb y) X Y ->
  teq (kev_t (ke_mod sb) [zt X; zt Y]) (zt (tmap2b (jax_mod sb) X Y)).
Proof. exact mod_lifted. Qed.
Print Assumptions C01K_mod_lifted.
Theorem C01K_fmod_lifted : forall sb, 0 < snd sb -> forall X Y, in_int sb 1 -> bcompat (shape X) (shape Y) ->
  tdom2 (fun x y => in_int sb x /\ in_int sb y) X Y ->
  teq (kev_t (ke_fmod sb) [zt X; zt Y]) (zt (tmap2b (jax_fmod sb) X Y)).
Proof. exact fmod_lifted. Qed.
Print Assumptions C01K_fmod_lifted.
Theorem C01K_max_lifted : forall X Y, bcompat (shape X) (shape Y) -> teq (kev_t ke_max [zt X; zt Y]) (zt (tmap2b jax_max X Y)).
Proof. exact max_lifted. Qed.
Print Assumptions C01K_max_lifted.
Theorem C01K_min_lifted : forall X Y, bcompat (shape X) (shape Y) -> teq (kev_t ke_min [zt X; zt Y]) (zt (tmap2b jax_min X Y)).
Proof. exact min_lifted. Qed.
Print Assumptions C01K_min_lifted.
Theorem C01K_clamp_lifted : forall X Lo Hi u, bcommon [shape X; shape Lo; shape Hi] u ->
  teq (kev_t ke_clamp [zt X; zt Lo; zt Hi]) (zt (tmap3b jax_clamp X Lo Hi)).
Proof. exact clamp_lifted. Qed.
Print Assumptions C01K_clamp_lifted.
Theorem C01K_clip_lifted : forall X Lo Hi u, bcommon [shape X; shape Lo; shape Hi] u ->
  teq (kev_t ke_clamp [zt X; zt Lo; zt Hi]) (zt (tmap3b jax_clip X Lo Hi)).
Proof. exact clip_lifted. Qed.
Print Assumptions C01K_clip_lifted.
Theorem C01K_relu_lifted : forall sb X, tdom1 (in_int sb) X -> teq (kev_t (ke_relu sb) [zt X]) (zt (tmap jax_relu X)).
Proof. exact relu_lifted. Qed.
Print Assumptions C01K_relu_lifted.
Theorem C01K_relu6_lifted : forall X, teq (kev_t ke_relu6 [zt X]) (zt (tmap jax_relu6 X)).
Proof. exact relu6_lifted. Qed.
Print Assumptions C01K_relu6_lifted.
Theorem C01K_select_n_lifted : forall (P : tensor bool) X Y u, bcommon [shape P; shape X; shape Y] u ->
  teq (kev_t ke_select_n [bt P; zt X; zt Y]) (zt (tmap3b jax_select_n P X Y)).
Proof. exact select_n_lifted. Qed.
Print Assumptions C01K_select_n_lifted.
Theorem C01K_select_n_bool_lifted : forall (P X Y : tensor bool) u, bcommon [shape P; shape X; shape Y] u ->
  teq (kev_t ke_select_n_b [bt P; bt X; bt Y]) (bt (tmap3b jax_select_n_b P X Y)).
Proof. exact select_n_bool_lifted. Qed.
Print Assumptions C01K_select_n_bool_lifted.
Theorem C01K_select_n_int_lifted : forall P X Y u, bcommon [shape P; shape X; shape Y] u ->
  tdom3 (fun p _ _ => p = 0 \/ p = 1) P X Y ->
  teq (kev_t ke_select_n_int [zt P; zt X; zt Y]) (zt (tmap3b jax_select_n_int P X Y)).
Proof. exact select_n_int_lifted. Qed.
Print Assumptions C01K_select_n_int_lifted.
Theorem C01K_where_lifted : forall (P : tensor bool) X Y u, bcommon [shape P; shape X; shape Y] u ->
  teq (kev_t ke_where [bt P; zt X; zt Y]) (zt (tmap3b jax_where P X Y)).
Proof. exact where_lifted. Qed.
Print Assumptions C01K_where_lifted.
Theorem C01K_where_bool_lifted : forall (P X Y : tensor bool) u, bcommon [shape P; shape X; shape Y] u ->
  teq (kev_t ke_where_b [bt P; bt X; bt Y]) (bt (tmap3b jax_where_b P X Y)).
Proof. exact where_bool_lifted. Qed.
Print Assumptions C01K_where_bool_lifted.
Theorem C01K_bool_and_lifted : forall (X Y : tensor bool), bcompat (shape X) (shape Y) ->
  teq (kev_t ke_bool_and [bt X; bt Y]) (bt (tmap2b jax_bool_and X Y)).
Proof. exact bool_and_lifted. Qed.
Print Assumptions C01K_bool_and_lifted.
Theorem C01K_bool_or_lifted : forall (X Y : tensor bool), bcompat (shape X) (shape Y) ->
  teq (kev_t ke_bool_or [bt X; bt Y]) (bt (tmap2b jax_bool_or X Y)).
Proof. exact bool_or_lifted. Qed.
Print Assumptions C01K_bool_or_lifted.
Theorem C01K_bool_xor_lifted : forall (X Y : tensor bool), bcompat (shape X) (shape Y) ->
  teq (kev_t ke_bool_xor [bt X; bt Y]) (bt (tmap2b jax_bool_xor X Y)).
Proof. exact bool_xor_lifted. Qed.
Print Assumptions C01K_bool_xor_lifted.
Theorem C01K_bool_not_lifted : forall (X : tensor bool), teq (kev_t ke_bool_not [bt X]) (bt (tmap jax_bool_not X)).
Proof. exact bool_not_lifted. Qed.
Print Assumptions C01K_bool_not_lifted.
Theorem C01K_bitand_lifted : forall sb X Y, bcompat (shape X) (shape Y) ->
  teq (kev_t (ke_bitand sb) [zt X; zt Y]) (zt (tmap2b (jax_bitand sb) X Y)).
Proof. exact bitand_lifted. Qed.
Print Assumptions C01K_bitand_lifted.
Theorem C01K_bitor_lifted : forall sb X Y, bcompat (shape X) (shape Y) ->
  teq (kev_t (ke_bitor sb) [zt X; zt Y]) (zt (tmap2b (jax_bitor sb) X Y)).
Proof. exact bitor_lifted. Qed.
Print Assumptions C01K_bitor_lifted.
Theorem C01K_bitxor_lifted : forall sb X Y, bcompat (shape X) (shape Y) ->
  teq (kev_t (ke_bitxor sb) [zt X; zt Y]) (zt (tmap2b (jax_bitxor sb) X Y)).
Proof. exact bitxor_lifted. Qed.
Print Assumptions C01K_bitxor_lifted.
Theorem C01K_bitnot_lifted : forall sb, 0 < snd sb -> forall X, tdom1 (in_int sb) X ->
  teq (kev_t (ke_bitnot sb) [zt X]) (zt (tmap (jax_bitnot sb) X)).
Proof. exact bitnot_lifted. Qed.
Print Assumptions C01K_bitnot_lifted.
Theorem C01K_shift_left_lifted : forall sb, 0 < snd sb -> forall X S, bcompat (shape X) (shape S) ->
  tdom2 (fun x s => in_int sb s /\ 0 <= s) X S ->
  teq (kev_t (ke_shift_left sb) [zt X; zt S]) (zt (tmap2b (jax_shift_left sb) X S)).
Proof. exact shift_left_lifted. Qed.
Print Assumptions C01K_shift_left_lifted.
Theorem C01K_shift_right_logical_lifted : forall sb, 0 < snd sb -> forall X S, bcompat (shape X) (shape S) ->
  tdom2 (fun x s => in_int sb x /\ in_int sb s /\ 0 <= s) X S ->
  teq (kev_t (ke_shift_right_logical sb) [zt X; zt S]) (zt (tmap2b (jax_shift_right_logical sb) X S)).
Proof. exact shift_right_logical_lifted. Qed.
Print Assumptions C01K_shift_right_logical_lifted.
Theorem C01K_shift_right_arithmetic_lifted : forall sb, 0 < snd sb -> forall X S, bcompat (shape X) (shape S) ->
  tdom2 (fun x s => in_int sb x /\ in_int sb s /\ 0 <= s) X S ->
  teq (kev_t (ke_shift_right_arithmetic sb) [zt X; zt S]) (zt (tmap2b (jax_shift_right_arithmetic sb) X S)).
Proof. exact shift_right_arithmetic_lifted. Qed.
Print Assumptions C01K_shift_right_arithmetic_lifted.
Theorem C01K_eq_lifted : forall X Y, bcompat (shape X) (shape Y) -> teq (kev_t ke_eq [zt X; zt Y]) (bt (tmap2b jax_eq X Y)).
Proof. exact eq_lifted. Qed.
Print Assumptions C01K_eq_lifted.
Theorem C01K_ne_lifted : forall X Y, bcompat (shape X) (shape Y) -> teq (kev_t ke_ne [zt X; zt Y]) (bt (tmap2b jax_ne X Y)).
Proof. exact ne_lifted. Qed.
Print Assumptions C01K_ne_lifted.
Theorem C01K_lt_lifted : forall X Y, bcompat (shape X) (shape Y) -> teq (kev_t ke_lt [zt X; zt Y]) (bt (tmap2b jax_lt X Y)).
Proof. exact lt_lifted. Qed.
Print Assumptions C01K_lt_lifted.
Theorem C01K_le_lifted : forall X Y, bcompat (shape X) (shape Y) -> teq (kev_t ke_le [zt X; zt Y]) (bt (tmap2b jax_le X Y)).
Proof. exact le_lifted. Qed.
Print Assumptions C01K_le_lifted.
Theorem C01K_gt_lifted : forall X Y, bcompat (shape X) (shape Y) -> teq (kev_t ke_gt [zt X; zt Y]) (bt (tmap2b jax_gt X Y)).
Proof. exact gt_lifted. Qed.
Print Assumptions C01K_gt_lifted.
Theorem C01K_ge_lifted : forall X Y, bcompat (shape X) (shape Y) -> teq (kev_t ke_ge [zt X; zt Y]) (bt (tmap2b jax_ge X Y)).
Proof. exact ge_lifted. Qed.
Print Assumptions C01K_ge_lifted.
Theorem C01K_eq_bool_lifted : forall (X Y : tensor bool), bcompat (shape X) (shape Y) ->
  teq (kev_t ke_eq_b [bt X; bt Y]) (bt (tmap2b jax_eq_b X Y)).
Proof. exact eq_bool_lifted. Qed.
Print Assumptions C01K_eq_bool_lifted.
Theorem C01K_ne_bool_lifted : forall (X Y : tensor bool), bcompat (shape X) (shape Y) ->
  teq (kev_t ke_ne_b [bt X; bt Y]) (bt (tmap2b jax_ne_b X Y)).
Proof. exact ne_bool_lifted. Qed.
Print Assumptions C01K_ne_bool_lifted.
Theorem C01K_integer_pow_lifted : forall sb, 0 < snd sb -> forall n X, tdom1 (in_int sb) X ->
  teq (kev_t (ke_integer_pow sb n) [zt X]) (zt (tmap (fun x => jax_integer_pow sb x n) X)).
Proof. exact integer_pow_lifted. Qed.
Print Assumptions C01K_integer_pow_lifted.
Theorem C01K_convert_int_lifted : forall sb X, teq (kev_t (ke_convert_int sb) [zt X]) (zt (tmap (jax_convert_int sb) X)).
Proof. exact convert_int_lifted. Qed.
Print Assumptions C01K_convert_int_lifted.
Theorem C01K_convert_to_bool_lifted : forall X, teq (kev_t ke_convert_to_bool [zt X]) (bt (tmap jax_convert_to_bool X)).
Proof. exact convert_to_bool_lifted. Qed.
Print Assumptions C01K_convert_to_bool_lifted.
Theorem C01K_convert_of_bool_lifted : forall sb (X : tensor bool),
  teq (kev_t (ke_convert_of_bool sb) [bt X]) (zt (tmap (jax_convert_of_bool sb) X)).
Proof. exact convert_of_bool_lifted. Qed.
Print Assumptions C01K_convert_of_bool_lifted.
Theorem C01K_floor_lifted : forall X, tdom1 frac_ok X -> teq (kev_t ke_floor [qt X]) (zt (tmap jax_floor X)).
Proof. exact floor_lifted. Qed.
Print Assumptions C01K_floor_lifted.
Theorem C01K_ceil_lifted : forall X, tdom1 frac_ok X -> teq (kev_t ke_ceil [qt X]) (zt (tmap jax_ceil X)).
Proof. exact ceil_lifted. Qed.
Print Assumptions C01K_ceil_lifted.
Theorem C01K_round_even_lifted : forall X, tdom1 frac_ok X -> teq (kev_t ke_round [qt X]) (zt (tmap jax_round_even X)).
Proof. exact round_even_lifted. Qed.
Print Assumptions C01K_round_even_lifted.
Theorem C01K_round_away_lifted : forall X, tdom1 frac_ok X -> teq (kev_t ke_round_away [qt X]) (zt (tmap jax_round_away X)).
Proof. exact round_away_lifted. Qed.
Print Assumptions C01K_round_away_lifted.

(* ---- (d) whole programs: the plugin contract of LoweringSem and the full-strength theorem for the exact fragment.
   Domain side conditions are carried by kpsem: the JAX program is DEFINED (jeval = Some) exactly when at every equation
   the operands have a common broadcast shape and every tuple of elements that meets is a value of the element type and
   satisfies the kernel's condition — no division by zero and no INT_MIN / -1 (div, rem), shift amounts >= 0. *)
Theorem C01K_kernel_registry_meets_plugin_contract : forall (tab : ktable) (lit : cten),
  (forall p k, tab p = Some k -> kern_ok k) -> eqn_contract cten (kpsem tab) (kgsem lit) (kreg tab) lit.
Proof. exact kreg_contract. Qed.
Print Assumptions C01K_kernel_registry_meets_plugin_contract.
Theorem C01K_exact_table_ok : forall p k, exact_table p = Some k -> kern_ok k.
Proof. exact exact_table_ok. Qed.
Print Assumptions C01K_exact_table_ok.
Theorem C01K_exact_fragment_correct : forall (lit : cten) (jp : jaxpr) (s s' : sctx),
  slower_jaxpr (kreg exact_table) s jp = Ok s' ->
  forall (r : jenv cten) (g : env cten) (r' : jenv cten),
  related cten s r g -> jeval cten (kpsem exact_table) lit jp r = Some r' ->
  exists new g', s_nodes s' = s_nodes s ++ new /\ eval cten (kgsem lit) new g = Some g' /\
                 genv_le cten g g' /\ related cten s' r' g'.
Proof. exact exact_table_fragment_correct. Qed.
Print Assumptions C01K_exact_fragment_correct.
Theorem C01K_exact_fragment_outputs : forall (lit : cten) jp s s' r g r' outvars,
  slower_jaxpr (kreg exact_table) s jp = Ok s' -> related cten s r g -> jeval cten (kpsem exact_table) lit jp r = Some r' ->
  Forall (fun v => bound (erase s') v <> None) outvars ->
  exists new g', s_nodes s' = s_nodes s ++ new /\ eval cten (kgsem lit) new g = Some g' /\
    Forall (fun v => exists n a, bound (erase s') v = Some n /\ g' n = Some a /\ r' v = Some a) outvars.
Proof. intros lit jp s s' r g r' ov. exact (exact_fragment_outputs exact_table lit exact_table_ok jp s s' r g r' ov). Qed.
Print Assumptions C01K_exact_fragment_outputs.
(* non-vacuity: where(x < y, x * 3 - y, y), x : int32[2,3], y : int32[3] — lowers, JAX and the graph agree *)
Theorem C01K_example_program : 
  match slower_jaxpr (kreg exact_table) ex_s0 ex_prog with
  | Ok s' => match eval cten (kgsem ex_lit3) (s_nodes s') ex_g0 with Some g' => g' 6%nat | None => None end
  | Err _ => None
  end = match jeval cten (kpsem exact_table) ex_lit3 ex_prog ex_r0 with Some r' => r' 5%nat | None => None end
  /\ match jeval cten (kpsem exact_table) ex_lit3 ex_prog ex_r0 with Some r' => r' 5%nat | None => None end <> None.
Proof. rewrite ex_prog_onnx, ex_prog_jax. split; [reflexivity | discriminate]. Qed.
Print Assumptions C01K_example_program.

(* ---- the jax.numpy substitutes with their own integer lowering (jnp.floor_divide is C01K_floor_divide_correct above: its
   lowered_floor_divide IS the jax.numpy plugin's graph; the others share the lax kernels' graphs, checked by tie S) *)
Theorem C01K_abs_unsigned_correct : forall sb x, 0 < snd sb -> is_signed sb = false -> in_int sb x -> lowered_abs sb x = jax_abs sb x.
Proof. exact abs_unsigned_correct. Qed.
Print Assumptions C01K_abs_unsigned_correct.
Theorem C01K_clip_op_correct : forall x lo hi, lowered_clip_op x lo hi = jax_clip x lo hi.
Proof. exact clip_op_correct. Qed.
Print Assumptions C01K_clip_op_correct.
Theorem C01K_clip_op_lifted : forall X Lo Hi u, bcommon [shape X; shape Lo; shape Hi] u ->
  teq (kev_t ke_clip_op [zt X; zt Lo; zt Hi]) (zt (tmap3b jax_clip X Lo Hi)).
Proof. exact clip_op_lifted. Qed.
Print Assumptions C01K_clip_op_lifted.
(* jnp.power / jnp.pow with a constant exponent 1..16 on integers (since ccb100d): the repeated-Mul graph of lowered_integer_pow,
   C01K_integer_pow_correct; history: before ccb100d Pow, C01K_integer_pow_outside_onnx_domain *)
Theorem C01K_jnp_power_prerepair_model_correct : forall sb x n, 0 < snd sb ->
  prerepair_integer_pow sb x n = jax_integer_pow sb x n.
Proof. exact prerepair_integer_pow_correct. Qed.
Print Assumptions C01K_jnp_power_prerepair_model_correct.
Theorem C01K_integer_pow0_repaired_correct : forall sb x, 0 < snd sb -> repaired_integer_pow0 sb x = jax_integer_pow sb x 0.
Proof. exact repaired_integer_pow0_correct. Qed.
Print Assumptions C01K_integer_pow0_repaired_correct.
(* composition of kernel graphs (what tie (e) checks the real multi-equation exports against) *)
Theorem C01K_composition_of_graphs : forall e args xs, kok (length args) e ->
  kev_s (ksubst e args) xs = kev_s e (map (fun a => kev_s a xs) args).
Proof. exact kev_s_ksubst. Qed.
Print Assumptions C01K_composition_of_graphs.

(* ================================================================ traced programs: structural primitives (LiftStruct.v)
   Real jaxprs of integer programs contain, next to the table primitives, literals, broadcast_in_dim (rank promotion),
   reshape, squeeze / expand_dims, transpose, integer convert_element_type and nested jit.  Each is an exact kernel at tensor
   level (index-function semantics, all ranks and extents); jit bodies are inlined by the harness exactly as the converter
   does; tie S for programs: Coq RUNS the model dispatcher on the traced program and compares the emitted graph (as a tree)
   with the real export. *)
(* lax.broadcast_in_dim: the plugin's Reshape (operand extents placed at the broadcast dimensions, 1 elsewhere) + Expand
   computes  out[idx] = x[idx[bd_k] (0 where x has extent 1)]_k  whenever bd is increasing inside the target rank and every
   operand extent is 1 or the target's (bd_ok: JAX's own precondition) *)
Theorem C01K_broadcast_in_dim_correct : forall (A : Type) (target bd : list nat) (X : tensor A),
  bd_ok (length target) 0 bd (shape X) target ->
  teq (lowered_broadcast_in_dim target bd X) (jax_broadcast_in_dim target bd X).
Proof. exact @broadcast_in_dim_correct. Qed.
Print Assumptions C01K_broadcast_in_dim_correct.
(* broadcast_in_dim of a literal is folded by the converter into an initializer holding the value at every index *)
Theorem C01K_full_is_broadcast_of_scalar : forall s (c : sval), teq (tfull s c) (jax_broadcast_in_dim s [] (tscalar c)).
Proof. exact full_is_broadcast. Qed.
Print Assumptions C01K_full_is_broadcast_of_scalar.
(* every equation kind of a traced program is a kernel whose emitted nodes evaluate, under the tensor-level ONNX semantics
   with Reshape / Expand / Squeeze / Transpose / Constant, to exactly its tensor-level JAX value on a fresh name *)
Theorem C01K_struct_kernels_ok : forall s k, gk_of s = Some k -> gkern_ok ssem k.
Proof. exact gk_of_ok. Qed.
Print Assumptions C01K_struct_kernels_ok.
Theorem C01K_struct_registry_meets_plugin_contract : forall l,
  eqn_contract cten (gpsem (stable l)) ssem (greg (stable l)) slit.
Proof. exact struct_registry_meets_plugin_contract. Qed.
Print Assumptions C01K_struct_registry_meets_plugin_contract.
(* FULL-STRENGTH C01 FOR TRACED INTEGER PROGRAMS (any length, wiring, rank, extent; side conditions: the dispatcher lowers
   the program and the JAX program is defined on the inputs, i.e. operands broadcast-compatible, in the kernels' domains,
   reshape sizes / squeeze axes / permutations / broadcast dimensions valid) *)
Theorem C01K_struct_program_correct : forall l jp s s', slower_jaxpr (greg (stable l)) s jp = Ok s' ->
  forall r g r', related cten s r g -> jeval cten (gpsem (stable l)) slit jp r = Some r' ->
  exists new g', s_nodes s' = s_nodes s ++ new /\ eval cten ssem new g = Some g' /\ genv_le cten g g' /\ related cten s' r' g'.
Proof. exact struct_program_correct. Qed.
Print Assumptions C01K_struct_program_correct.
(* the abstract form: ANY registry of kernels that meet gkern_ok (further structural primitives plug in here) *)
Theorem C01K_struct_fragment_correct : forall sem tab lit, (forall p k, tab p = Some k -> gkern_ok sem k) ->
  forall jp s s', slower_jaxpr (greg tab) s jp = Ok s' ->
  forall r g r', related cten s r g -> jeval cten (gpsem tab) lit jp r = Some r' ->
  exists new g', s_nodes s' = s_nodes s ++ new /\ eval cten sem new g = Some g' /\ genv_le cten g g' /\ related cten s' r' g'.
Proof. exact struct_fragment_correct. Qed.
Print Assumptions C01K_struct_fragment_correct.
(* non-vacuity: x * 2 + y with x : int32[2,3], y : int32[3] (mul by a literal, rank promotion by broadcast_in_dim, add):
   the emitted graph is Add(Mul(x, 2), Expand(Reshape(y, [1,3]), [1,3])), and both semantics give the same concrete tensor *)
Theorem C01K_struct_example :
  sp_tree sx_tab sx_prog 2 5 = Some (gtree_of (ROp2 (OAdd I32) (ROp2 (OMul I32) (RIn 0) (RConst (VZ 2))) (RExpand [1; 3]%nat (RReshape [1; 3]%nat (RIn 1)))))
  /\ opt_cten_is (sp_jax sx_tab sx_prog [sx_cx; sx_cy] 5) (mkC [2; 3]%nat (map VZ [4; 15; -23; 0; 5; -1])) = true
  /\ opt_cten_is (sp_onnx sx_tab sx_prog [sx_cx; sx_cy] 5) (mkC [2; 3]%nat (map VZ [4; 15; -23; 0; 5; -1])) = true.
Proof. exact sx_sp. Qed.
Print Assumptions C01K_struct_example.

(* ================================================================ integer reductions over axes, concatenate, slice (LiftReduce.v, LiftStruct.v)
   XLA reduces in an unspecified order: red_any op l v = "v is the value of SOME tree of op over SOME permutation of l".
   Every order gives the same value (wraparound included); the ONNX Reduce* node (sequential fold) is one of them. *)
Theorem C01K_reduce_sum_any_order : forall sb l v, 0 < snd sb -> Forall (in_int sb) l ->
  red_any (o_add sb) l v -> v = jax_reduce_sum sb l.
Proof. exact any_order_sum. Qed.
Print Assumptions C01K_reduce_sum_any_order.
Theorem C01K_reduce_prod_any_order : forall sb l v, 0 < snd sb -> Forall (in_int sb) l ->
  red_any (o_mul sb) l v -> v = jax_reduce_prod sb l.
Proof. exact any_order_prod. Qed.
Print Assumptions C01K_reduce_prod_any_order.
Theorem C01K_reduce_max_any_order : forall l v, red_any Z.max l v -> jax_reduce_max l = Some v.
Proof. exact any_order_max. Qed.
Print Assumptions C01K_reduce_max_any_order.
Theorem C01K_reduce_min_any_order : forall l v, red_any Z.min l v -> jax_reduce_min l = Some v.
Proof. exact any_order_min. Qed.
Print Assumptions C01K_reduce_min_any_order.
(* the lowerings: Reduce* directly ... *)
Theorem C01K_reduce_sum_correct : forall sb l, 0 < snd sb -> o_reduce_sum sb l = jax_reduce_sum sb l.
Proof. exact reduce_sum_correct. Qed.
Print Assumptions C01K_reduce_sum_correct.
Theorem C01K_reduce_prod_correct : forall sb l, 1 < snd sb -> o_reduce_prod sb l = jax_reduce_prod sb l.
Proof. exact reduce_prod_correct. Qed.
Print Assumptions C01K_reduce_prod_correct.
(* ... Cast(int64) -> ReduceSum / ReduceProd -> Cast back for the types ONNX has no variant for (any width <= 64, no side
   condition on the elements) ... *)
Theorem C01K_reduce_sum_via64_correct : forall sb l, 0 < snd sb <= 64 -> lowered_reduce_sum_via64 sb l = jax_reduce_sum sb l.
Proof. exact reduce_sum_via64_correct. Qed.
Print Assumptions C01K_reduce_sum_via64_correct.
Theorem C01K_reduce_prod_via64_correct : forall sb l, 0 < snd sb <= 64 -> lowered_reduce_prod_via64 sb l = jax_reduce_prod sb l.
Proof. exact reduce_prod_via64_correct. Qed.
Print Assumptions C01K_reduce_prod_via64_correct.
(* ... Cast(int32) -> ReduceMax / ReduceMin -> Cast back for 16-bit types (elements in their type) ... *)
Theorem C01K_reduce_minmax_via32_correct : forall rk sb l, (rk = RMax \/ rk = RMin) -> 0 < snd sb <= 16 ->
  Forall (fun v => elem_in sb v = true) l ->
  sem1 (OCast sb) (sred_onnx rk I32r (map (sem1 (OCast I32r)) l)) = sred_jax rk sb l.
Proof. exact mm_law. Qed.
Print Assumptions C01K_reduce_minmax_via32_correct.
(* ... and Cast(int64) -> ReduceMin / ReduceSum -> Cast(bool) for reduce_and / reduce_or *)
Theorem C01K_reduce_and_correct : forall l, l <> [] -> lowered_reduce_and l = Some (jax_reduce_and l).
Proof. exact reduce_and_correct. Qed.
Print Assumptions C01K_reduce_and_correct.
Theorem C01K_reduce_or_correct : forall l, Z.of_nat (length l) < 2 ^ 63 -> lowered_reduce_or l = jax_reduce_or l.
Proof. exact reduce_or_correct. Qed.
Print Assumptions C01K_reduce_or_correct.
(* lax.slice vs ONNX Slice (which first clamps starts / ends into [0, dim]) under JAX's precondition *)
Theorem C01K_slice_correct : forall (A : Type) (starts limits strides : list nat) (X : tensor A),
  slice_okb (shape X) starts limits strides = true -> onnx_slice starts limits strides X = jax_slice starts limits strides X.
Proof. exact @slice_correct. Qed.
Print Assumptions C01K_slice_correct.
(* the tensor-level kernels (all ranks, any axes mask) are part of C01K_struct_kernels_ok / C01K_struct_program_correct:
   gspec now also has GReduce, GReduceSum64, GReduceProd64, GReduceMax32, GReduceMin32, GReduceAnd, GReduceOr, GConcat, GSlice *)
Theorem C01K_reduce_kernel_ok : forall rk sb mask, gkern_ok ssem (gk_reduce rk sb mask).
Proof. exact gk_reduce_ok. Qed.
Print Assumptions C01K_reduce_kernel_ok.
(* lax.iota / jnp.arange: Range (+ Unsqueeze-as-Reshape + Expand) + Cast; exact while the largest index fits the type *)
Theorem C01K_iota_kernels_ok : forall sb shape dim n,
  gkern_ok ssem (gk_iota sb shape dim) /\ gkern_ok ssem (gk_iota1 sb n) /\ gkern_ok ssem (gk_arange n).
Proof. intros. split; [apply gk_iota_ok | split; [apply gk_iota1_ok | apply gk_arange_ok]]. Qed.
Print Assumptions C01K_iota_kernels_ok.
(* jnp.sum / jnp.prod on bool and small integers: JAX promotes to the default integer width; the plugin casts to that type and
   reduces there (Cast -> ReduceSum / ReduceProd).  Exact without any side condition: both sides wrap in the work type *)
Theorem C01K_reduce_sum_cast_correct : forall sbw l, 0 < snd sbw -> o_reduce_sum sbw (map (o_cast sbw) l) = jax_reduce_sum sbw l.
Proof. exact reduce_sum_cast_correct. Qed.
Print Assumptions C01K_reduce_sum_cast_correct.
Theorem C01K_reduce_prod_cast_correct : forall sbw l, 1 < snd sbw -> o_reduce_prod sbw (map (o_cast sbw) l) = jax_reduce_prod sbw l.
Proof. exact reduce_prod_cast_correct. Qed.
Print Assumptions C01K_reduce_prod_cast_correct.
Theorem C01K_reduce_cast_kernels_ok : forall rk sbw mask, (rk = RSum \/ rk = RProd) -> 0 <= snd sbw ->
  gkern_ok ssem (gk_reduce_cast rk sbw mask) /\ gkern_ok ssem (gk_reduce_cast_bool rk sbw mask).
Proof. intros. split; [now apply gk_reduce_cast_ok | now apply gk_reduce_cast_bool_ok]. Qed.
Print Assumptions C01K_reduce_cast_kernels_ok.
(* ================================================================ nested jit / pjit inside the program-level theorem (LiftCall.v)
   A call equation carries its body; call_plugin lowers the body IN PLACE with the same dispatcher, in a fresh variable scope
   (only the body's invars are bound, to the operands' graph values), and binds the outvar to the body's result; psem_call
   evaluates the body.  Adding such a call to ANY registry that meets the plugin contract gives a registry that meets it
   (generic in the value type and both semantics); nested calls are added innermost first. *)
Theorem C01K_call_extends_contract : forall (V : Type) gsem psem reg (lit : V),
  eqn_contract V psem gsem reg lit ->
  forall key c, eqn_contract V (ext_psem V psem reg lit key c) gsem (ext_reg reg key c) lit.
Proof. exact extend_contract. Qed.
Print Assumptions C01K_call_extends_contract.
(* C01K_struct_program_correct for programs whose jit bodies are NOT flattened: l = the primitives, cs = the calls *)
Theorem C01K_struct_nested_program_correct : forall l cs jp s s', slower_jaxpr (snd (nsem l cs)) s jp = Ok s' ->
  forall r g r', related cten s r g -> jeval cten (fst (nsem l cs)) slit jp r = Some r' ->
  exists new g', s_nodes s' = s_nodes s ++ new /\ eval cten ssem new g = Some g' /\ genv_le cten g g' /\ related cten s' r' g'.
Proof. exact struct_nested_program_correct. Qed.
Print Assumptions C01K_struct_nested_program_correct.
(* ================================================================ argmax / argmin with ties (LiftReduce.v)
   first_max l i: i is in range, l[i] bounds every element, every earlier element is strictly smaller — "the FIRST index of
   the maximum"; it determines i.  ONNX ArgMax / ArgMin (select_last_index = 0) is one scan that replaces the best so far
   only by a strictly better element; JAX is the position of the first occurrence of the maximum / minimum. *)
Theorem C01K_argmax_first_index_unique : forall l i i', first_max l i -> first_max l i' -> i = i'.
Proof. exact first_max_unique. Qed.
Print Assumptions C01K_argmax_first_index_unique.
Theorem C01K_argmax_meets_spec : forall l, l <> [] -> first_max l (o_argmax l) /\ first_max l (jax_argmax l).
Proof. intros l H. split; [now apply o_argmax_spec | now apply jax_argmax_spec]. Qed.
Print Assumptions C01K_argmax_meets_spec.
Theorem C01K_argmax_correct : forall l, l <> [] -> o_argmax l = jax_argmax l.
Proof. exact argmax_correct. Qed.
Print Assumptions C01K_argmax_correct.
Theorem C01K_argmin_correct : forall l, l <> [] -> o_argmin l = jax_argmin l.
Proof. exact argmin_correct. Qed.
Print Assumptions C01K_argmin_correct.
(* tensor level (one axis of any rank; ArgMax / ArgMin then Cast to the index type, or Identity for int64); side condition:
   the extent of the axis fits the index type *)
Theorem C01K_arg_kernels_ok : forall rk sbi mask, (rk = RArgMax \/ rk = RArgMin) -> 0 <= snd sbi ->
  gkern_ok ssem (gk_arg rk sbi mask) /\ gkern_ok ssem (gk_arg_id rk mask).
Proof. intros. split; [now apply gk_arg_ok | now apply gk_arg_id_ok]. Qed.
Print Assumptions C01K_arg_kernels_ok.
(* cumsum on integers: running wrapped sums; and the Cast(int32) -> CumSum -> Cast lowering for 8- / 16-bit integers *)
Theorem C01K_cumsum_correct : forall sb l, 0 < snd sb -> o_cumsum sb 0 l = jax_cumsum sb l.
Proof. exact cumsum_correct. Qed.
Print Assumptions C01K_cumsum_correct.
Theorem C01K_cumsum_via32_correct : forall sb l, 0 < snd sb <= 32 -> lowered_cumsum_via32 sb l = jax_cumsum sb l.
Proof. exact cumsum_via32_correct. Qed.
Print Assumptions C01K_cumsum_via32_correct.
(* ================================================================ lax.dynamic_slice on tensors of any rank (LiftDyn.v):
   the window product of the one-axis kernel (C01K dynamic_slice_correct: normalise, clamp into [0, dim - size], Slice) *)
Theorem C01K_dynamic_slice_nd_correct : forall (A : Type) sb sizes starts (X : tensor A),
  sb = I32 \/ sb = I64 -> ds_ok sb (dims_of X) sizes starts ->
  onnx_dynamic_slice_t sb sizes starts X = jax_dynamic_slice_t sb sizes starts X.
Proof. exact @dynamic_slice_nd_correct. Qed.
Print Assumptions C01K_dynamic_slice_nd_correct.
(* select_n with an integer selector and three cases: the Cast / Equal / Where cascade is an elementwise exact kernel
   (side condition 0 <= which <= 2, JAX's own contract) *)
Theorem C01K_select3_kernel_ok : kern_ok ki_select3.
Proof. exact ki_select3_ok. Qed.
Print Assumptions C01K_select3_kernel_ok.

(* ================================================================ float kernels on special values (FloatSpecial.v)
   fv = FloatSpecial.NaN | Inf sign | FloatSpecial.Zero sign | Fin sign magnitude: the domain on which the no-rounding float kernels are decided.
   jnp.copysign as exported (Where(y < 0, -|x|, |x|)) ignores the sign bit of y = -0.0: refuted, characterised, repaired. *)
Theorem C01K_copysign_lowered_refuted : exists x y, FloatSpecial.lowered_copysign x y <> FloatSpecial.jax_copysign x y.
Proof. exact FloatSpecial.copysign_lowered_refuted. Qed.
Print Assumptions C01K_copysign_lowered_refuted.
Theorem C01K_copysign_lowered_iff : forall x y, FloatSpecial.lowered_copysign x y = FloatSpecial.jax_copysign x y <-> (y <> FloatSpecial.Zero true \/ x = FloatSpecial.NaN).
Proof. exact FloatSpecial.copysign_lowered_iff. Qed.
Print Assumptions C01K_copysign_lowered_iff.
Theorem C01K_copysign_repaired_correct : forall x y, FloatSpecial.repaired_copysign x y = FloatSpecial.jax_copysign x y.
Proof. exact FloatSpecial.copysign_repaired_correct. Qed.
Print Assumptions C01K_copysign_repaired_correct.
(* sign: ONNX Sign maps every zero to +0, XLA keeps the operand's zero *)
Theorem C01K_float_sign_lowered_iff : forall x, FloatSpecial.onnx_sign x = FloatSpecial.jax_sign x <-> x <> FloatSpecial.Zero true.
Proof. exact FloatSpecial.sign_lowered_iff. Qed.
Print Assumptions C01K_float_sign_lowered_iff.
Theorem C01K_float_sign_repaired_correct : forall x, FloatSpecial.repaired_sign x = FloatSpecial.jax_sign x.
Proof. exact FloatSpecial.sign_repaired_correct. Qed.
Print Assumptions C01K_float_sign_repaired_correct.
(* maximum / minimum: FloatSpecial.NaN propagates, +0 > -0; relu; clamp with lo > hi *)
Theorem C01K_float_max_min_special : (forall x, FloatSpecial.fmax FloatSpecial.NaN x = FloatSpecial.NaN /\ FloatSpecial.fmax x FloatSpecial.NaN = FloatSpecial.NaN /\ FloatSpecial.fmin FloatSpecial.NaN x = FloatSpecial.NaN /\ FloatSpecial.fmin x FloatSpecial.NaN = FloatSpecial.NaN)
  /\ FloatSpecial.fmax (FloatSpecial.Zero true) (FloatSpecial.Zero false) = FloatSpecial.Zero false /\ FloatSpecial.fmin (FloatSpecial.Zero false) (FloatSpecial.Zero true) = FloatSpecial.Zero true
  /\ (forall x, FloatSpecial.fmax x (FloatSpecial.Zero false) = FloatSpecial.fmax (FloatSpecial.Zero false) x)
  /\ (forall x, x <> FloatSpecial.NaN -> FloatSpecial.fmin (FloatSpecial.fmax x (FloatSpecial.one false)) (FloatSpecial.one true) = FloatSpecial.one true).
Proof.
  split; [exact FloatSpecial.max_nan_propagates|]. split; [reflexivity|]. split; [reflexivity|]. split; [exact FloatSpecial.relu_commutes | exact FloatSpecial.clamp_lo_gt_hi].
Qed.
Print Assumptions C01K_float_max_min_special.
