(* C06 — control flow is preserved for every branch choice and trip count.
   Only statements here; models and proofs live in theories/Loop.v.  The scheme definitions
   (while_scheme, batched_while_scheme, scan_scheme, scan2_scheme, scan_n_scheme, fori_scheme,
   cond_plugin) are tied to the real exporter by harness/c06.py, which extracts their parameters
   from exported ModelProtos and validates the assumed ONNX Loop/If semantics against onnxruntime. *)
From Coq Require Import ZArith List Bool.
From J2O Require Import Loop.
Import ListNotations.
Open Scope Z_scope.

(* while: for every cond c, body b, captured constants k and initial state s0, if the JAX loop
   performs n iterations (n = 0 included) the exported Loop(M = int64 max, c(s0); s' = b(s),
   keep' = c(s')) returns the same final state, whatever (sufficient) fuel the evaluators get *)
Theorem C06_while_scheme_correct :
  forall (K St : Type) (c : K -> St -> bool) (b : K -> St -> St) (k : K) (s0 : St) (n : nat),
  while_stops_at (c k) (b k) s0 n -> Z.of_nat n <= int64_max ->
  forall fuel, (n <= fuel)%nat ->
    while_scheme fuel int64_max c b k s0 = Done (k, iter (b k) n s0)
    /\ jax_while fuel (c k) (b k) s0 = Done (iter (b k) n s0).
Proof. exact (fun K St c b k s0 => while_scheme_correct K St c b k s0 int64_max). Qed.
Print Assumptions C06_while_scheme_correct.

Theorem C06_while_scheme_matches_jax :
  forall (K St : Type) (c : K -> St -> bool) (b : K -> St -> St) (k : K) (s0 : St) (fuel : nat) (sN : St),
  jax_while fuel (c k) (b k) s0 = Done sN -> Z.of_nat fuel <= int64_max ->
  while_scheme fuel int64_max c b k s0 = Done (k, sN).
Proof. exact (fun K St c b k s0 => while_scheme_matches_jax K St c b k s0 int64_max). Qed.
Print Assumptions C06_while_scheme_matches_jax.

(* vmapped while: every lane ends where its own independent JAX loop ends *)
Theorem C06_batched_while_correct :
  forall (St : Type) (c : St -> bool) (b : St -> St) (ss0 : list St) (ns : list nat),
  Forall2 (while_stops_at c b) ss0 ns -> Z.of_nat (list_max ns) <= int64_max ->
  forall fuel, (list_max ns <= fuel)%nat ->
    batched_while_scheme fuel int64_max c b ss0 = Done (zipw (fun s n => iter b n s) ss0 ns)
    /\ Forall2 (fun s n => jax_while fuel c b s = Done (iter b n s)) ss0 ns.
Proof. exact (fun St c b ss0 ns => batched_while_correct St c b ss0 ns int64_max). Qed.
Print Assumptions C06_batched_while_correct.

(* scan with one scanned array of ANY length (0 included): final carry and stacked ys equal JAX's *)
Theorem C06_scan_scheme_correct :
  forall (K C X Y : Type) (f : K -> C -> X -> C * Y) (k : K) (init : C) (xs : list X) (fuel : nat),
  (length xs <= fuel)%nat ->
  scan_scheme fuel f k init xs = Done (jax_scan (f k) init xs).
Proof. exact scan_scheme_correct. Qed.
Print Assumptions C06_scan_scheme_correct.

Theorem C06_scan_zero_length_gives_empty_ys :
  forall (K C X Y : Type) (f : K -> C -> X -> C * Y) (k : K) (init : C) (fuel : nat),
  scan_scheme fuel f k init (@nil X) = Done (init, @nil Y).
Proof. exact scan_scheme_zero_length. Qed.
Print Assumptions C06_scan_zero_length_gives_empty_ys.

(* two scanned arrays of equal length (trip count taken from the first) *)
Theorem C06_scan2_scheme_correct :
  forall (K C A B Y : Type) (f : K -> C -> A * B -> C * Y) (k : K) (init : C)
         (xs1 : list A) (xs2 : list B) (fuel : nat),
  length xs1 = length xs2 -> (length xs1 <= fuel)%nat ->
  scan2_scheme fuel f k init xs1 xs2 = Done (jax_scan (f k) init (combine xs1 xs2)).
Proof. exact scan2_scheme_correct. Qed.
Print Assumptions C06_scan2_scheme_correct.

(* scan without scanned inputs, static length n >= 0 *)
Theorem C06_scan_n_scheme_correct :
  forall (K C Y : Type) (f : K -> C -> C * Y) (k : K) (init : C) (n fuel : nat),
  (n <= fuel)%nat -> scan_n_scheme fuel f k init n = Done (jax_scan_n (f k) init n).
Proof. exact scan_n_scheme_correct. Qed.
Print Assumptions C06_scan_n_scheme_correct.

(* fori_loop for ALL integer bounds, upper <= lower included *)
Theorem C06_fori_scheme_correct :
  forall (St : Type) (lower upper : Z) (body : Z -> St -> St) (init : St) (fuel : nat),
  (Z.to_nat (upper - lower) <= fuel)%nat ->
  fori_scheme fuel lower upper body init = Done (jax_fori lower upper body init).
Proof. exact fori_scheme_correct. Qed.
Print Assumptions C06_fori_scheme_correct.

Theorem C06_fori_zero_trips :
  forall (St : Type) (lower upper : Z) (body : Z -> St -> St) (init : St) (fuel : nat),
  upper <= lower -> fori_scheme fuel lower upper body init = Done init.
Proof. exact fori_scheme_zero_trips. Qed.
Print Assumptions C06_fori_zero_trips.

(* cond: both predicate values; If.then_branch is JAX's true_fun *)
Theorem C06_cond_scheme_correct :
  forall (A B : Type) (p : bool) (true_fun false_fun : A -> B) (x : A),
  cond_plugin p [false_fun; true_fun] x = Some (jax_cond p true_fun false_fun x).
Proof. exact cond_scheme_correct. Qed.
Print Assumptions C06_cond_scheme_correct.

(* the same when the predicate travels as an int32 selector (traced predicate): Cast<BOOL>(Cast<INT32>(p)) *)
Theorem C06_cond_scheme_correct_int_pred :
  forall (A B : Type) (p : bool) (true_fun false_fun : A -> B) (x : A),
  cond_plugin (cast_bool (Z.b2z p)) [false_fun; true_fun] x = Some (jax_cond p true_fun false_fun x).
Proof. exact cond_scheme_correct_int_pred. Qed.
Print Assumptions C06_cond_scheme_correct_int_pred.

(* two-way switch: every integer index, in range or not *)
Theorem C06_switch2_scheme_correct :
  forall (A B : Type) (idx : Z) (b0 b1 : A -> B) (x : A),
  cond_plugin (cast_bool (clamp 0 idx 1)) [b0; b1] x = jax_switch idx [b0; b1] x.
Proof. exact switch2_scheme_correct. Qed.
Print Assumptions C06_switch2_scheme_correct.

(* any other number of branches is rejected at export time *)
Theorem C06_cond_rejects_other_arity :
  forall (A B : Type) (sel : bool) (branches : list (A -> B)) (x : A),
  length branches <> 2%nat -> cond_plugin sel branches x = None.
Proof. exact cond_plugin_rejects_other_arity. Qed.
Print Assumptions C06_cond_rejects_other_arity.

(* the evaluator's fuel never changes a normal result *)
Theorem C06_loop_result_independent_of_fuel :
  forall (St Y : Type) (body : Z -> bool -> St -> option (bool * St * Y)) fuel M i keep s r,
  onnx_loop fuel M i keep s body = Done r ->
  forall fuel', (fuel <= fuel')%nat -> onnx_loop fuel' M i keep s body = Done r.
Proof. exact onnx_loop_fuel_mono. Qed.
Print Assumptions C06_loop_result_independent_of_fuel.
