(* C13 — conversion leaves the host process as it found it.
   Only statements here; model and proofs live in theories/Patch.v (hand-written executable model of
   apply_patches / apply_monkey_patches / the x64 managers / the jit trace cache, tied to the running
   code by harness/c13.py on every run).
   The model has two CODE SHAPES: `true` = /repo since commit b0781c1 (ownership recorded when
   patching, unowned attributes restored by delattr, apply loop of apply_monkey_patches inside its
   try), `false` = the code before it.  PART F states what the current code satisfies; PART L keeps
   the weaker theorems and the refutations of the old code (the harness recognises both shapes). *)
From Coq Require Import List Bool ZArith.
From J2O Require Import Patch.
Import ListNotations.

(* ================================================================== both code shapes *)
Theorem C13_apply_patches_is_nested_try_finally : forall M fixed specs f body h,
  with_patches M fixed specs f body h = core M fixed (annotate specs 0 f) (body_of f body) h.
Proof. exact with_patches_core. Qed.
Print Assumptions C13_apply_patches_is_nested_try_finally.

(* ================================================================== PART F: the code since b0781c1 *)
(* every own dict restored exactly: ALL spec lists (duplicates, inheriting targets in any order),
   ALL synchronous fault points, ALL restoring bodies; no side condition *)
Theorem C13_apply_patches_restores_exact : forall M specs f body h,
  sync_fault f -> body_restores body ->
  forall u b, fst (with_patches M true specs f body h) u b = h u b.
Proof. exact apply_patches_restores_exact. Qed.
Print Assumptions C13_apply_patches_restores_exact.

Theorem C13_apply_patches_restores : forall M specs f body h,
  sync_fault f -> body_restores body ->
  forall D a, lookup M (fst (with_patches M true specs f body h)) D a = lookup M h D a.
Proof. exact apply_patches_restores_getattr. Qed.
Print Assumptions C13_apply_patches_restores.

Theorem C13_own_dict_restored : forall M specs f body h t a,
  sync_fault f -> body_restores body ->
  (forall x, h t a = Some x -> fst (with_patches M true specs f body h) t a = Some x) /\
  (h t a = None -> fst (with_patches M true specs f body h) t a = None).
Proof. exact own_dict_restored. Qed.
Print Assumptions C13_own_dict_restored.

(* nesting: an activation is itself a restoring body *)
Theorem C13_nested_restores : forall M specs f body,
  sync_fault f -> body_restores body -> body_restores (with_patches M true specs f body).
Proof. exact with_patches_is_restoring_body. Qed.
Print Assumptions C13_nested_restores.

Theorem C13_stack_restores : forall M frames body,
  (forall sf, In sf frames -> sync_fault (snd sf)) -> body_restores body ->
  body_restores (with_stack M true frames body).
Proof. exact stack_restores_exact. Qed.
Print Assumptions C13_stack_restores.

Theorem C13_history_restores : forall M body, body_restores body ->
  forall hist h,
  (forall frames, In frames hist -> forall sf, In sf frames -> sync_fault (snd sf)) ->
  (forall u b, run_history_fixed M hist body h u b = h u b) /\
  (forall D a, lookup M (run_history_fixed M hist body h) D a = lookup M h D a).
Proof. exact history_restores_exact. Qed.
Print Assumptions C13_history_restores.

(* apply_monkey_patches: every prior _PATCH_STATE (nesting depth), every synchronous fault INCLUDING
   faults inside the enter loop, every body exit; no side condition, no "entered" premise *)
Theorem C13_refcount_restores : forall M ks f body h ps,
  sync_fault f -> ps_wf ps -> amp_body_exact body ->
  let r := with_amp M true ks f body (h, ps) in
  (forall t a, snd (fst r) t a = ps t a) /\ (forall u b, fst (fst r) u b = h u b).
Proof. exact refcount_restores_exact. Qed.
Print Assumptions C13_refcount_restores.

Theorem C13_refcount_nesting : forall M n ks fb body,
  amp_body_exact body -> amp_body_exact (amp_depth M true n ks fb body).
Proof. exact refcount_nesting_exact. Qed.
Print Assumptions C13_refcount_nesting.

Theorem C13_refcount_restores_getattr : forall M ks f body h ps,
  sync_fault f -> ps_wf ps -> amp_body_exact body ->
  forall D a, lookup M (fst (fst (with_amp M true ks f body (h, ps)))) D a = lookup M h D a.
Proof. exact refcount_restores_getattr. Qed.
Print Assumptions C13_refcount_restores_getattr.

(* _activate_plugin_worlds = apply_monkey_patches around the ExitStack of plugin frames *)
Theorem C13_activate_worlds_restores : forall M ks fa frames body,
  sync_fault fa -> (forall sf, In sf frames -> sync_fault (snd sf)) -> body_restores body ->
  amp_body_exact (activate_worlds M ks fa frames body).
Proof. exact activate_worlds_exact. Qed.
Print Assumptions C13_activate_worlds_restores.

(* histories of conversions interleaved with HOST writes (rebinding / deleting attributes, also patched
   ones): after EACH call the own dicts, _PATCH_STATE and getattr are what they were immediately
   before THAT call *)
Theorem C13_host_history_restores : forall M evs st,
  ps_wf (snd st) -> (forall e, In e evs -> hevent_ok e) -> every_call_restores M evs st.
Proof. exact host_history_restores. Qed.
Print Assumptions C13_host_history_restores.

(* the exit kind (return / Exception / non-Exception BaseException such as KeyboardInterrupt, SystemExit)
   is a parameter: with `finally` restoration holds for EVERY kind *)
Theorem C13_restores_for_every_exit_kind : forall M specs f xk body h,
  sync_fault f -> body_restores body ->
  forall u b, fst (with_patches_k M HFinally true specs f xk body h) u b = h u b.
Proof. exact restores_for_every_exit_kind. Qed.
Print Assumptions C13_restores_for_every_exit_kind.

Theorem C13_refcount_restores_for_every_exit_kind : forall M ks f xk body h ps,
  sync_fault f -> ps_wf ps -> amp_body_exact body ->
  let r := with_amp_k M HFinally ks f xk body (h, ps) in
  (forall t a, snd (fst r) t a = ps t a) /\ (forall u b, fst (fst r) u b = h u b).
Proof. exact refcount_restores_for_every_exit_kind. Qed.
Print Assumptions C13_refcount_restores_for_every_exit_kind.

(* REFUTED for the handler shape `except Exception: restore; raise / else: restore` *)
Theorem C13_except_exception_handler_refuted : exists M specs h t a,
  lookup M (fst (with_patches_k M HExceptExceptionElse true specs NoFault ExitBaseException
                   (fun x => (x, Raised)) h)) t a <> lookup M h t a /\
  lookup M (fst (with_patches_k M HExceptExceptionElse true specs NoFault ExitException
                   (fun x => (x, Raised)) h)) t a = lookup M h t a /\
  lookup M (fst (with_patches_k M HFinally true specs NoFault ExitBaseException
                   (fun x => (x, Raised)) h)) t a = lookup M h t a.
Proof. exact except_exception_handler_refuted. Qed.
Print Assumptions C13_except_exception_handler_refuted.

(* what still needs its premise: no exception between setattr and the bookkeeping (asynchronous only) *)
Theorem C13_async_fault_after_setattr_leaks : exists M h specs k t a, forall fixed,
  lookup M (fst (with_patches M fixed specs (AfterSet k) (fun x => (x, Returned)) h)) t a <> lookup M h t a.
Proof. exact async_fault_after_setattr_leaks. Qed.
Print Assumptions C13_async_fault_after_setattr_leaks.

Theorem C13_amp_async_fault_leaks : exists M h ks k t a,
  lookup M (fst (fst (with_amp M true ks (AfterSet k) (fun hp => (fst hp, snd hp, Returned)) (h, ps_empty)))) t a
  <> lookup M h t a.
Proof. exact amp_async_fault_leaks. Qed.
Print Assumptions C13_amp_async_fault_leaks.

(* ================================================================== PART L: the code BEFORE b0781c1 *)
(* ---- apply_patches: getattr restored for ALL spec lists (duplicates allowed), ALL synchronous
   fault points, ALL observers, under the side conditions the proof forces *)
Theorem C13_legacy_apply_patches_restores : forall M specs f body h,
  sync_fault f ->
  no_inherited_clash M h specs = true ->
  body_restores body ->
  forall D a, mro_coherent M h specs D a = true ->
    lookup M (fst (with_patches M false specs f body h)) D a = lookup M h D a.
Proof. exact apply_patches_restores. Qed.
Print Assumptions C13_legacy_apply_patches_restores.

(* DESIGN B.3 form: single inheritance (parent chains) needs no coherence premise *)
Theorem C13_legacy_apply_patches_restores_single_inheritance : forall M specs f body h,
  tail_coherent M -> sync_fault f -> no_inherited_clash M h specs = true -> body_restores body ->
  forall D a, lookup M (fst (with_patches M false specs f body h)) D a = lookup M h D a.
Proof. exact apply_patches_restores_single_inheritance. Qed.
Print Assumptions C13_legacy_apply_patches_restores_single_inheritance.

Theorem C13_parent_chain_is_tail_coherent : forall fuel parent,
  (forall t, chain fuel parent t = chain (S fuel) parent t) -> tail_coherent (chain fuel parent).
Proof. exact chain_tail_coherent. Qed.
Print Assumptions C13_parent_chain_is_tail_coherent.

(* ---- own-dict level: precisely what is restored *)
Theorem C13_legacy_owned_restored_exactly : forall M specs f body h t a x,
  sync_fault f -> body_restores body -> h t a = Some x ->
  fst (with_patches M false specs f body h) t a = Some x.
Proof. exact owned_restored_exactly. Qed.
Print Assumptions C13_legacy_owned_restored_exactly.

Theorem C13_legacy_missing_restored_exactly : forall M specs f body h t a,
  sync_fault f -> no_inherited_clash M h specs = true -> body_restores body ->
  lookup M h t a = None -> fst (with_patches M false specs f body h) t a = None.
Proof. exact missing_restored_exactly. Qed.
Print Assumptions C13_legacy_missing_restored_exactly.

Theorem C13_legacy_own_after_is_own_or_inherited : forall M specs f body h t a,
  sync_fault f -> no_inherited_clash M h specs = true -> body_restores body ->
  fst (with_patches M false specs f body h) t a = h t a \/
  (In (t, a) (map spec_key specs) /\ h t a = None /\
   fst (with_patches M false specs f body h) t a = lookup M h t a).
Proof. exact own_after_is_own_or_inherited. Qed.
Print Assumptions C13_legacy_own_after_is_own_or_inherited.

(* ---- nesting *)
Theorem C13_legacy_nested_restores : forall M specs f body Sb h,
  sync_fault f ->
  clash_free M (owned_in h) (map spec_key specs) Sb = true ->
  body_materializes_only M Sb body ->
  forall D a, coh M h (map spec_key specs ++ Sb) a (D :: M D) = true ->
    lookup M (fst (with_patches M false specs f body h)) D a = lookup M h D a.
Proof. exact nested_restores. Qed.
Print Assumptions C13_legacy_nested_restores.

Theorem C13_legacy_with_patches_composes : forall M specs f body Sb,
  sync_fault f ->
  static_clash_free M (map spec_key specs) Sb = true ->
  body_materializes_only M Sb body ->
  body_materializes_only M (map spec_key specs ++ Sb) (with_patches M false specs f body).
Proof. exact with_patches_composes. Qed.
Print Assumptions C13_legacy_with_patches_composes.

(* the ExitStack of per-plugin activations, any depth, a fault schedule per frame *)
Theorem C13_legacy_stack_restores : forall M frames body h,
  (forall sf, In sf frames -> sync_fault (snd sf)) ->
  clash_free M (owned_in h) (stack_keys frames) [] = true ->
  body_restores body ->
  forall D a, coh M h (stack_keys frames) a (D :: M D) = true ->
    lookup M (fst (with_stack M false frames body h)) D a = lookup M h D a.
Proof. exact stack_restores. Qed.
Print Assumptions C13_legacy_stack_restores.

(* any sequence of conversions *)
Theorem C13_legacy_history_restores : forall M S body, body_restores body ->
  forall hist h,
  (forall frames, In frames hist ->
     (forall sf, In sf frames -> sync_fault (snd sf)) /\ incl (stack_keys frames) S /\
     clash_free M (owned_in h) (stack_keys frames) [] = true) ->
  gcoh M h S ->
  forall D a, lookup M (run_history M hist body h) D a = lookup M h D a.
Proof. exact history_restores. Qed.
Print Assumptions C13_legacy_history_restores.

(* ---- the side conditions are necessary (refutations, by computation on concrete heaps) *)
Theorem C13_legacy_inherited_clash_leaks : exists M h specs t a,
  no_inherited_clash M h specs = false /\ mro_coherent M h specs t a = true /\
  lookup M (fst (with_patches M false specs NoFault (fun x => (x, Returned)) h)) t a <> lookup M h t a /\
  lookup M (fst (with_patches M true specs NoFault (fun x => (x, Returned)) h)) t a = lookup M h t a.
Proof. exact inherited_clash_leaks. Qed.
Print Assumptions C13_legacy_inherited_clash_leaks.

Theorem C13_legacy_incoherent_mro_leaks : exists M h specs D a,
  no_inherited_clash M h specs = true /\ mro_coherent M h specs D a = false /\
  lookup M (fst (with_patches M false specs NoFault (fun x => (x, Returned)) h)) D a <> lookup M h D a /\
  lookup M (fst (with_patches M true specs NoFault (fun x => (x, Returned)) h)) D a = lookup M h D a.
Proof. exact incoherent_mro_leaks. Qed.
Print Assumptions C13_legacy_incoherent_mro_leaks.


(* ---- apply_monkey_patches ref-counting *)
Theorem C13_legacy_refcount_restores : forall M ks f body Sb h ps,
  no_apply_fault f -> ps_wf ps -> amp_body_ok M ks Sb body ->
  clash_free M (owned_in h) (amp_patched ps ks) Sb = true ->
  amp_entered M false ks f (h, ps) = true ->
  let r := with_amp M false ks f body (h, ps) in
  (forall t a, snd (fst r) t a = ps t a) /\ R M (amp_patched ps ks ++ Sb) h (fst (fst r)).
Proof. exact refcount_restores. Qed.
Print Assumptions C13_legacy_refcount_restores.

Theorem C13_legacy_refcount_reentrant : forall M ks f body Sb h ps,
  no_apply_fault f -> ps_wf ps -> all_active ps ks -> amp_body_ok M ks Sb body ->
  let r := with_amp M false ks f body (h, ps) in
  amp_entered M false ks f (h, ps) = true /\
  (forall t a, snd (fst r) t a = ps t a) /\ R M Sb h (fst (fst r)).
Proof. exact refcount_reentrant. Qed.
Print Assumptions C13_legacy_refcount_reentrant.

Theorem C13_legacy_refcount_nesting : forall M n ks fb body Sb h ps,
  ps_wf ps -> amp_body_ok M ks Sb body ->
  clash_free M (owned_in h) (amp_patched ps ks) Sb = true ->
  amp_entered M false ks NoFault (h, ps) = true ->
  let r := amp_depth M false (S n) ks fb body (h, ps) in
  (forall t a, snd (fst r) t a = ps t a) /\ R M (amp_patched ps ks ++ Sb) h (fst (fst r)).
Proof. exact refcount_nesting. Qed.
Print Assumptions C13_legacy_refcount_nesting.

Theorem C13_legacy_refcount_restores_lookup : forall M ks f body h ps,
  no_apply_fault f -> ps_wf ps -> amp_body_ok M ks [] body ->
  clash_free M (owned_in h) (amp_patched ps ks) [] = true ->
  amp_entered M false ks f (h, ps) = true ->
  forall D a, coh M h (amp_patched ps ks) a (D :: M D) = true ->
    lookup M (fst (fst (with_amp M false ks f body (h, ps)))) D a = lookup M h D a.
Proof. exact refcount_restores_lookup. Qed.
Print Assumptions C13_legacy_refcount_restores_lookup.

(* REFUTED for exceptions inside the enter loop (it runs before the try) *)
Theorem C13_legacy_amp_apply_fault_leaks : exists M h ks t a,
  let r := with_amp M false ks NoFault (fun hp => (fst hp, snd hp, Returned)) (h, ps_empty) in
  let r' := with_amp M true ks NoFault (fun hp => (fst hp, snd hp, Returned)) (h, ps_empty) in
  amp_entered M false ks NoFault (h, ps_empty) = false /\
  lookup M (fst (fst r)) t a <> lookup M h t a /\ snd (fst r) t a <> ps_empty t a /\
  lookup M (fst (fst r')) t a = lookup M h t a /\ snd (fst r') t a = ps_empty t a.
Proof. exact amp_apply_fault_leaks. Qed.
Print Assumptions C13_legacy_amp_apply_fault_leaks.

(* ---- x64 flag: every previous value, every requested precision, every body and exit *)
Theorem C13_x64_flag_restored : forall enable_double body flag,
  fst (to_onnx_x64 enable_double body flag) = flag.
Proof. exact x64_flag_restored. Qed.
Print Assumptions C13_x64_flag_restored.

Theorem C13_force_x64_restores : forall tgt body flag,
  flag_restoring body -> fst (force_x64 tgt body flag) = flag.
Proof. exact force_x64_restores. Qed.
Print Assumptions C13_force_x64_restores.

(* ---- eager behaviour after exports: REFUTED on the unchanged code (jit trace cache) *)
Theorem C13_eager_after_export_refuted : exists hist, run_events hist [] <> fresh_process_results hist.
Proof. exact eager_after_export_refuted. Qed.
Print Assumptions C13_eager_after_export_refuted.

Theorem C13_eager_ok_without_export_partial : forall hist c,
  cache_clean c -> (forall e, In e hist -> match e with EEager _ _ => True | _ => False end) ->
  run_events hist c = fresh_process_results hist.
Proof. exact eager_ok_without_export. Qed.
Print Assumptions C13_eager_ok_without_export_partial.

Theorem C13_keyed_cache_repairs : forall hist c,
  unpatched_clean c -> run_events_keyed hist c = fresh_process_results hist.
Proof. exact keyed_cache_repairs. Qed.
Print Assumptions C13_keyed_cache_repairs.
