(* C10 — JAX transformations commute with export.  Statements only; proofs live in theories/Batch.v
   (the shared broadcasting batch rule vs. the definition of vmap), theories/Inline.v (jit / custom_jvp /
   custom_vjp / remat2 body inlining with alpha-renaming) and theories/Linear.v (linearity of the allow-listed
   primitives; the lists are translated from the current source: gen/GenAutodiff.v). *)
From Coq Require Import ZArith QArith String List Bool.
From J2O Require Import PyLib Tensor Lowering Batch Inline Linear.
From J2OGen Require Import GenAutodiff.
Import ListNotations.
Local Open Scope nat_scope.

(* ------------------------------------------------------------------ vmap: the shared batch rule *)
(* statement  batcher_correct_for bt :=
     forall prim op x dx y dy, elementwise prim op -> batch_ok x dx y dy ->
       exists r od, bt prim x dx y dy = Some (r, od) /\ teq (front od r) (vmap_spec (tmap2b op) x dx y dy)

   THE CURRENT CODE (commit c32db30: new axes right after the batch axis) = Batch.batcher_fixed:
   true for ALL shapes, ranks and batch dims *)
Theorem C10_batcher_fixed_correct : forall A B C : Type, batcher_correct_for (@batcher_fixed A B C).
Proof. exact @batcher_fixed_correct. Qed.
Print Assumptions C10_batcher_fixed_correct.

(* ... and the current source IS that helper (AST of _handle_scalar_broadcasting / broadcast_batcher_compat, gen/GenAutodiff.v) *)
Theorem C10_current_batch_helper_is_repaired :
  hsb_source_variant = "after_batch"%string /\ batcher_shape_checked = true.
Proof. exact current_batch_helper_is_repaired. Qed.
Print Assumptions C10_current_batch_helper_is_repaired.

(* HISTORY (before c32db30): _handle_scalar_broadcasting appended the new axes at the END = Batch.batcher.
   The statement was FALSE of it: *)
Theorem C10_batcher_correct_refuted :
  exists (op : Z -> Z -> Z) x dx y dy, batch_ok x dx y dy /\
    exists r od, batcher (tmap2b op) x dx y dy = Some (r, od) /\
                 ~ teq (front od r) (vmap_spec (tmap2b op) x dx y dy).
Proof. exact batcher_correct_refuted. Qed.
Print Assumptions C10_batcher_correct_refuted.

Theorem C10_batcher_not_correct : ~ batcher_correct_for (@batcher Z Z Z).
Proof. exact batcher_not_correct. Qed.
Print Assumptions C10_batcher_not_correct.

(* and true of it exactly on: every BATCHED operand has the full per-example rank or a per-example shape of ones *)
Theorem C10_batcher_correct_partial : forall (A B C : Type) (prim : tensor A -> tensor B -> tensor C) op x dx y dy,
  elementwise prim op -> batch_ok x dx y dy -> ranks_uniform_or_unit x dx y dy ->
  exists r od, batcher prim x dx y dy = Some (r, od) /\ teq (front od r) (vmap_spec (tmap2b op) x dx y dy).
Proof. exact @batcher_correct_partial. Qed.
Print Assumptions C10_batcher_correct_partial.

(* the hypothesis `elementwise` cannot be dropped: jnp.dot / jnp.matmul register the same rule *)
Theorem C10_batcher_nonelementwise_refuted :
  batch_ok wx (Some 0) wy (Some 0) /\
  shape (vmap_spec dotZ wx (Some 0) wy (Some 0)) = [3] /\
  (exists r, batcher dotZ wx (Some 0) wy (Some 0) = Some (r, 0) /\ shape (front 0 r) = [3; 3]) /\
  (exists r, batcher_fixed dotZ wx (Some 0) wy (Some 0) = Some (r, 0) /\ shape (front 0 r) = [3; 3]).
Proof. exact batcher_nonelementwise_refuted. Qed.
Print Assumptions C10_batcher_nonelementwise_refuted.

Theorem C10_batcher_users_classified :
  forallb (fun u => str_in u elementwise_batcher_users || str_in u contraction_batcher_users) BATCHER_USERS = true.
Proof. exact batcher_users_classified. Qed.
Print Assumptions C10_batcher_users_classified.

(* non-vacuity *)
Example C10_partial_fragment_inhabited :
  let xs := mkT [3] (fun idx => Z.of_nat (nth 0 idx 0)) in
  batch_ok xs (Some 0) wy None /\ ranks_uniform_or_unit xs (Some 0) wy None.
Proof. exact fragment_inhabited. Qed.
Print Assumptions C10_partial_fragment_inhabited.

(* ------------------------------------------------------------------ vmap: REDUCTION-type batch rules (softmax, standardize) *)
(* an axis-parameterised primitive = a kernel applied to the fibers along the axes; the only hypothesis is kernel_ext *)
(* current standardize rule (910bb71): move the batch axis to the front, shift the canonical axes past it, bind on the batched array *)
Theorem C10_reduce_rule_correct : forall (A : Type) (k : kernel A) axes (x : tensor A) d,
  kernel_ext k -> d < rank x ->
  teq (front (snd (reduce_rule k axes x d)) (fst (reduce_rule k axes x d))) (vmap_spec1 (prim_axes k axes) x d).
Proof. exact @reduce_rule_correct. Qed.
Print Assumptions C10_reduce_rule_correct.

(* current softmax rule (c86dca6): canonicalise against the per-example rank, move to front, vmap the original *)
Theorem C10_softmax_rule_correct : forall (A : Type) (k : kernel A) a (x : tensor A) d,
  d < rank x ->
  teq (front (snd (softmax_rule k a x d)) (fst (softmax_rule k a x d))) (vmap_spec1 (prim_axes k [a]) x d).
Proof. exact @softmax_rule_correct. Qed.
Print Assumptions C10_softmax_rule_correct.

(* HISTORY: the old softmax axis arithmetic was right exactly on this set of (axis, batch dim) *)
Theorem C10_softmax_old_axis_iff : forall r a d, axis_valid r a -> d <= r ->
  let p := canon r a in
  softmax_body_axis_old (S r) a d = p <->
  ((a < 0)%Z /\ (d <= p \/ (p = 0 /\ d = 1))) \/ ((0 <= a)%Z /\ (p < d \/ (p = 0 /\ d = 0))).
Proof. exact softmax_old_axis_iff. Qed.
Print Assumptions C10_softmax_old_axis_iff.

(* HISTORY: the unary elementwise rule standardize used to register is not vmap for a reduction *)
Theorem C10_reduce_elementwise_rule_refuted :
  ~ teq (front (snd (reduce_elementwise_rule kz [1%Z] wr 0)) (fst (reduce_elementwise_rule kz [1%Z] wr 0)))
        (vmap_spec1 (prim_axes kz [1%Z]) wr 0).
Proof. exact reduce_elementwise_rule_refuted. Qed.
Print Assumptions C10_reduce_elementwise_rule_refuted.

(* non-vacuity: the integer kernel used by the differential tie satisfies the hypothesis *)
Theorem C10_kernel_hypothesis_inhabited : kernel_ext kz.
Proof. exact kz_ext. Qed.
Print Assumptions C10_kernel_hypothesis_inhabited.

(* the shared rule of jnp.sum/max/min/amax/amin/any/all (register_reduction_batch_rule): for every rank, axis list (or None),
   keepdims and batch dim the result, with batch dim 0, is the stack of per-example reductions *)
Theorem C10_reduction_batch_rule_correct : forall (A : Type) (rk : rkernel A) axes keep (x : tensor A) d,
  rkernel_ext rk -> d < rank x ->
  teq (front (snd (reduction_batch_rule rk axes keep x d)) (fst (reduction_batch_rule rk axes keep x d)))
      (vmap_spec1 (reduce_axes rk axes keep) x d).
Proof. exact @reduction_batch_rule_correct. Qed.
Print Assumptions C10_reduction_batch_rule_correct.

Theorem C10_reduction_kernel_hypothesis_inhabited : rkernel_ext rkz.
Proof. exact rkz_ext. Qed.
Print Assumptions C10_reduction_kernel_hypothesis_inhabited.

(* a primitive with an OUTPUT-axis parameter (jax.nn.one_hot): move-to-front + axis canonicalised against the per-example output
   rank + 1 is vmap for every rank / axis / batch dim; the rule of the unchanged tree (bind with the user's axis) is refuted *)
Theorem C10_out_axis_rule_correct : forall (A B : Type) (k : A -> nat -> B) a C (x : tensor A) d,
  d < rank x ->
  teq (front (snd (out_axis_rule k a C x d)) (fst (out_axis_rule k a C x d)))
      (stack0 (nth d (shape x) 0) (fun b => prim_out_axis k a C (slice d x b))).
Proof. exact @out_axis_rule_correct. Qed.
Print Assumptions C10_out_axis_rule_correct.

(* ------------------------------------------------------------------ jit / nested jit / custom_jvp / custom_vjp / checkpoint *)
Theorem C10_alpha_inline_ok : forall rho reg bi body bo c e,
  injective rho -> reg_equivariant rho reg -> ren_ctx rho c = c -> ren_eqn rho e = e ->
  jit_lower rho reg bi body bo c e = ren_res rho (inline_plugin reg bi body bo c e).
Proof. exact alpha_inline_ok. Qed.
Print Assumptions C10_alpha_inline_ok.

Theorem C10_alpha_inline_same_outputs : forall rho reg bi body bo c e c' r,
  injective rho -> reg_equivariant rho reg -> ren_ctx rho c = c -> ren_eqn rho e = e ->
  inline_plugin reg bi body bo c e = Ok (c', r) ->
  exists c'', jit_lower rho reg bi body bo c e = Ok (c'', r) /\ c_conn c'' = c_conn c' /\
              forall o, rho o = o -> bound c'' o = bound c' o.
Proof. exact alpha_inline_same_outputs. Qed.
Print Assumptions C10_alpha_inline_same_outputs.

Theorem C10_alpha_inline_same_errors : forall rho reg bi body bo c e x,
  injective rho -> reg_equivariant rho reg -> ren_ctx rho c = c -> ren_eqn rho e = e ->
  inline_plugin reg bi body bo c e = Err x -> jit_lower rho reg bi body bo c e = Err x.
Proof. exact alpha_inline_same_errors. Qed.
Print Assumptions C10_alpha_inline_same_errors.

Theorem C10_two_inlinings_no_clash : forall (rho1 rho2 : ren) reg bi body bo c1 e2 c2 r2,
  (forall v w, rho1 v <> rho2 w) ->
  reg_protects (fun w => exists v, w = rho1 v) reg ->
  (forall v, ~ In (Some (rho1 v)) (e_outs e2)) ->
  jit_lower rho2 reg bi body bo c1 e2 = Ok (c2, r2) ->
  forall v, bound c2 (rho1 v) = bound c1 (rho1 v).
Proof. exact two_inlinings_no_clash. Qed.
Print Assumptions C10_two_inlinings_no_clash.

(* the fresh maps exist (block_ren N k, k >= 1: injective, identity outside the two blocks, disjoint ranges) *)
Theorem C10_fresh_maps_exist : forall N k, 1 <= k ->
  injective (block_ren N k) /\
  (forall v, N <= v -> (v < k * N \/ k * N + N <= v) -> block_ren N k v = v) /\
  (forall v, v < N -> k * N <= block_ren N k v < k * N + N).
Proof.
  intros N k Hk. split; [now apply block_ren_injective|]. split.
  - intros v H1 H2. now apply block_ren_fixes.
  - intros v Hv. now apply block_ren_range.
Qed.
Print Assumptions C10_fresh_maps_exist.

(* ------------------------------------------------------------------ grad / vjp: the transpose fallback *)
Theorem C10_allowlist_all_linear :
  forallb (fun n => str_in n known_linear_names) LINEAR_TRANSPOSE_FALLBACK_ALLOWLIST = true.
Proof. exact allowlist_all_linear. Qed.
Print Assumptions C10_allowlist_all_linear.

Theorem C10_allowlist_linear_denotations : forall n, In n LINEAR_TRANSPOSE_FALLBACK_ALLOWLIST ->
  exists k, assoc n jnp_kinds = Some k /\ linear (den_of k).
Proof. exact allowlist_linear_denotations. Qed.
Print Assumptions C10_allowlist_linear_denotations.

Theorem C10_transpose_fallback_only_for_linear : forall n, should_register_transpose n None = true ->
  exists k, assoc n jnp_kinds = Some k /\ linear (den_of k).
Proof. exact transpose_fallback_only_for_linear. Qed.
Print Assumptions C10_transpose_fallback_only_for_linear.

Theorem C10_forwarding_pairs_same_denotation :
  forallb pair_same_kind ORIGINAL_RULE_FORWARDING_ALLOWLIST = true.
Proof. exact forwarding_pairs_same_denotation. Qed.
Print Assumptions C10_forwarding_pairs_same_denotation.

Theorem C10_forwarding_allow_block_disjoint :
  forallb (fun p => negb (pair_in p ORIGINAL_RULE_FORWARDING_ALLOWLIST)) ORIGINAL_RULE_FORWARDING_BLOCKLIST = true.
Proof. exact forwarding_allow_block_disjoint. Qed.
Print Assumptions C10_forwarding_allow_block_disjoint.

(* ------------------------------------------------------------------ hand-written differentiation rules *)
(* rules derived from the original implementation (jax.jvp / jax.vmap of the original) are JAX's own rules *)
Theorem C10_derived_rule_is_jax_rule : forall (F R : Type) (D : F -> R) (impl orig : F), impl = orig -> D impl = D orig.
Proof. exact @derived_rule_is_jax_rule. Qed.
Print Assumptions C10_derived_rule_is_jax_rule.

Theorem C10_derived_jvp_helper_is_jax_jvp : derived_jvp_helper_shape_checked = true.
Proof. exact derived_jvp_helper_is_jax_jvp. Qed.
Print Assumptions C10_derived_jvp_helper_is_jax_jvp.

(* every plugin with a HAND-WRITTEN jvp / transpose rule (AST inventory) has a boundary test family *)
Theorem C10_handwritten_rules_have_boundary_tests :
  forallb (fun m => str_in m boundary_tested_rules) (HANDWRITTEN_JVP_PLUGINS ++ HANDWRITTEN_TRANSPOSE_PLUGINS) = true.
Proof. exact handwritten_rules_have_boundary_tests. Qed.
Print Assumptions C10_handwritten_rules_have_boundary_tests.

(* jnp.prod: the three-case tangent (no zero / exactly one zero / two or more zeros in the reduced slice) IS the product rule
   sum_i t_i * prod_{j<>i} x_j, for every slice and tangent over the rationals *)
Theorem C10_prod_jvp_three_correct : forall l t, (ProdJvp.prod_jvp_three l t == ProdJvp.dprod l t)%Q.
Proof. exact ProdJvp.prod_jvp_three_correct. Qed.
Print Assumptions C10_prod_jvp_three_correct.

(* a rule that treats ">= 1 zero" like "exactly one zero" is wrong (x = [0;5;0]) and right exactly for <= 1 zero *)
Theorem C10_prod_jvp_collapsed_refuted : exists l t, ~ (ProdJvp.prod_jvp_collapsed l t == ProdJvp.dprod l t)%Q.
Proof. exact ProdJvp.prod_jvp_collapsed_refuted. Qed.
Print Assumptions C10_prod_jvp_collapsed_refuted.

Theorem C10_prod_jvp_collapsed_partial : forall l t, (ProdJvp.zcount l <= 1)%nat ->
  (ProdJvp.prod_jvp_collapsed l t == ProdJvp.dprod l t)%Q.
Proof. exact ProdJvp.prod_jvp_collapsed_partial. Qed.
Print Assumptions C10_prod_jvp_collapsed_partial.
