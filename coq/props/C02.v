(* C02 — the optimizer never changes what a model computes.
   Statements only.  What is PROVED here: (1) the two graph-surgery primitives every rewrite is built
   from are sound for all SSA graphs over arbitrary operator semantics, with graph outputs and
   nested-graph captures as observers; (2) the translated guard _is_inverse_perm implies the semantic
   inverse relation, and with Tensor.v's law the transpose-pair redirect is sound in every graph;
   (3) the translated operator sets contain only pointwise operators.  The pass control flow is
   tied to these by harness/c02.py (differential run of the primitives; enumeration of the rewrite
   neighbourhood through the real optimizer with ONNX Runtime before/after). *)
From Coq Require Import String List ZArith.
From J2O Require Import PyLib Tensor Graph C02Opt.
From J2OGen Require Import GenCast GenOpt.
Import ListNotations.

Theorem C02_replace_all_uses_sound :
  forall (V : Type) (veq : V -> V -> Prop),
    (forall a, veq a a) -> (forall a b, veq a b -> veq b a) -> (forall a b c, veq a b -> veq b c -> veq a c) ->
  forall sem : string -> list nat -> list V -> option (list V),
    (forall op ats vs vs' o, Forall2 veq vs vs' -> sem op ats vs = Some o ->
       exists o', sem op ats vs' = Some o' /\ Forall2 veq o o') ->
  forall (old new : name) (g : graph) (e : env V),
    (forall pre post em, g_nodes g = pre ++ post -> eval V sem pre e = Some em -> inv V veq old new em) ->
    refines V veq sem g (replace_all_uses old new g) e.
Proof. exact replace_all_uses_sound. Qed.
Print Assumptions C02_replace_all_uses_sound.

Theorem C02_remove_node_sound :
  forall (V : Type) (veq : V -> V -> Prop), (forall a, veq a a) ->
  forall (sem : string -> list nat -> list V -> option (list V)) pre n post outs (e : env V),
    (forall m x, In m post -> In x (n_uses m) -> ~ In x (n_outs n)) ->   (* node inputs AND nested captures *)
    (forall x, In x outs -> ~ In x (n_outs n)) ->                         (* graph outputs *)
    refines V veq sem (mkGraph (pre ++ n :: post) outs) (mkGraph (pre ++ post) outs) e.
Proof. exact remove_node_sound. Qed.
Print Assumptions C02_remove_node_sound.

Theorem C02_is_inverse_perm_sound : forall p q : list nat,
  is_inverse_perm (map Z.of_nat p) (map Z.of_nat q) = Some true -> is_inverse p q.
Proof. exact is_inverse_perm_sound. Qed.
Print Assumptions C02_is_inverse_perm_sound.

Theorem C02_transpose_law : forall (A : Type) (p q : list nat) (x : tensor A),
  is_perm p -> is_perm q -> length p = rank x -> is_inverse p q -> teq (transpose q (transpose p x)) x.
Proof. exact (@transpose_inverse). Qed.
Print Assumptions C02_transpose_law.

Theorem C02_transpose_pair_fold_sound :
  forall (A : Type) (sem : string -> list nat -> list (tensor A) -> option (list (tensor A))),
    (forall op ats vs vs' o, Forall2 (@teq A) vs vs' -> sem op ats vs = Some o ->
       exists o', sem op ats vs' = Some o' /\ Forall2 (@teq A) o o') ->
    (forall perm vs o, sem "Transpose"%string perm vs = Some o ->
       exists x, vs = [x] /\ o = [transpose perm x] /\ length perm = rank x) ->
  forall g e T1 T2 p q x t1 t2,
    ssa (tensor A) (g_nodes g) e -> In T1 (g_nodes g) -> In T2 (g_nodes g) ->
    is_transpose T1 p x t1 -> is_transpose T2 q t1 t2 ->
    is_perm p -> is_perm q -> is_inverse p q ->
    avail_before (tensor A) sem (g_nodes g) e x t2 ->
    refines (tensor A) (@teq A) sem g (replace_all_uses t2 x g) e.
Proof. exact transpose_pair_fold_sound. Qed.
Print Assumptions C02_transpose_pair_fold_sound.

Theorem C02_commuting_ops_are_pointwise :
  forallb (fun o => str_in o (pointwise_unary ++ pointwise_with_side_operands)) ALLOWED_ELEMWISE = true /\
  forallb (fun o => str_in o (pointwise_unary ++ ["CastLike"]%string)) ELEMENTWISE_UNARY_OPS = true /\
  forallb (fun o => str_in o pointwise_binary) ELEMENTWISE_BINARY_OPS = true.
Proof. exact (conj allowed_elemwise_pointwise (conj elementwise_unary_pointwise elementwise_binary_pointwise)). Qed.
Print Assumptions C02_commuting_ops_are_pointwise.

Theorem C02_pointwise_commutes_with_transpose : forall (A B : Type) (f : A -> B) p (x : tensor A),
  teq (tmap f (transpose p x)) (transpose p (tmap f x)).
Proof. exact (@tmap_transpose). Qed.
Print Assumptions C02_pointwise_commutes_with_transpose.

(* ---- one pass verified end to end: remove_redundant_casts_ir (model in theories/CastPass.v, tied to the
        real pass by differential run).  One iteration of its while-changed loop, and the loop, refine the graph
        for EVERY annotated SSA graph whose declared dtypes are true and whose inputs are well typed; the
        decision it consults is the translated one proved in C17. *)
From J2O Require Import Dtype CastSem CastPass.

Theorem C02_cast_step_sound :
  forall (sem : string -> list nat -> list ttensor -> option (list ttensor)),
    (forall op ats vs vs' o, Forall2 tteq vs vs' -> sem op ats vs = Some o -> exists o', sem op ats vs' = Some o' /\ Forall2 tteq o o') ->
    (forall op ats vs o, Forall wt vs -> sem op ats vs = Some o -> Forall wt o) ->
    (forall t vs o, sem "Cast"%string [t] vs = Some o -> exists x d, vs = [x] /\ dtype_of_code (Z.of_nat t) = Some d /\ o = [tcast d x]) ->
  forall g g' e, admissible sem g e -> cast_step g = Some g' -> refines ttensor tteq sem (to_graph g) (to_graph g') e.
Proof. exact cast_step_sound. Qed.
Print Assumptions C02_cast_step_sound.

Theorem C02_cast_pass_sound :
  forall (sem : string -> list nat -> list ttensor -> option (list ttensor)),
    (forall op ats vs vs' o, Forall2 tteq vs vs' -> sem op ats vs = Some o -> exists o', sem op ats vs' = Some o' /\ Forall2 tteq o o') ->
    (forall op ats vs o, Forall wt vs -> sem op ats vs = Some o -> Forall wt o) ->
    (forall t vs o, sem "Cast"%string [t] vs = Some o -> exists x d, vs = [x] /\ dtype_of_code (Z.of_nat t) = Some d /\ o = [tcast d x]) ->
  forall fuel g e, admissible_along sem fuel g e -> refines ttensor tteq sem (to_graph g) (to_graph (cast_pass fuel g)) e.
Proof. exact cast_pass_sound. Qed.
Print Assumptions C02_cast_pass_sound.

(* the same pass, for every graph that is admissible (SSA, well-typed inputs, true dtype annotations) WHEN THE PASS
   STARTS: admissibility is preserved by every iteration (values are kept up to tteq, which keeps the dtype; the
   removed names are no longer defined), so nothing is assumed about the intermediate graphs of the loop *)
Theorem C02_cast_step_admissible :
  forall (sem : string -> list nat -> list ttensor -> option (list ttensor)),
    (forall op ats vs vs' o, Forall2 tteq vs vs' -> sem op ats vs = Some o -> exists o', sem op ats vs' = Some o' /\ Forall2 tteq o o') ->
    (forall op ats vs o, Forall wt vs -> sem op ats vs = Some o -> Forall wt o) ->
    (forall t vs o, sem "Cast"%string [t] vs = Some o -> exists x d, vs = [x] /\ dtype_of_code (Z.of_nat t) = Some d /\ o = [tcast d x]) ->
  forall g g' e ef, admissible sem g e -> eval ttensor sem (ag_nodes g) e = Some ef -> cast_step g = Some g' -> admissible sem g' e.
Proof. exact cast_step_admissible. Qed.
Print Assumptions C02_cast_step_admissible.

Theorem C02_cast_pass_sound_strong :
  forall (sem : string -> list nat -> list ttensor -> option (list ttensor)),
    (forall op ats vs vs' o, Forall2 tteq vs vs' -> sem op ats vs = Some o -> exists o', sem op ats vs' = Some o' /\ Forall2 tteq o o') ->
    (forall op ats vs o, Forall wt vs -> sem op ats vs = Some o -> Forall wt o) ->
    (forall t vs o, sem "Cast"%string [t] vs = Some o -> exists x d, vs = [x] /\ dtype_of_code (Z.of_nat t) = Some d /\ o = [tcast d x]) ->
  forall fuel g e, admissible sem g e -> refines ttensor tteq sem (to_graph g) (to_graph (cast_pass fuel g)) e.
Proof. exact cast_pass_sound_strong. Qed.
Print Assumptions C02_cast_pass_sound_strong.

(* ---- a second pass verified end to end: remove_orphan_transposes_ir only performs dead-node removal, for
        every graph, counting graph outputs and nested-graph captures as observers *)
From J2O Require Import OrphanPass.
Theorem C02_orphan_pass_sound :
  forall (V : Type) (veq : V -> V -> Prop), (forall a, veq a a) -> (forall a b c, veq a b -> veq b c -> veq a c) ->
  forall (sem : string -> list nat -> list V -> option (list V)) fuel g e, refines V veq sem g (orphan_pass fuel g) e.
Proof. exact orphan_pass_sound. Qed.
Print Assumptions C02_orphan_pass_sound.

(* ---- a third pass verified end to end: remove_identity_reshapes_ir, for every annotated SSA graph over tensors
        of any element type whose shape/constant annotations are true at run time (that is property C08);
        generic rewrite lemma (Redirect.v) + row-major reshape algebra for every rank and extent (Reshape.v) *)
From J2O Require Import Tensor Redirect Preserve Reshape IdReshapePass.
Theorem C02_redirect_remove_sound :
  forall (V : Type) (veq : V -> V -> Prop), (forall a, veq a a) -> (forall a b, veq a b -> veq b a) ->
  (forall a b c, veq a b -> veq b c -> veq a c) ->
  forall sem : string -> list nat -> list V -> option (list V),
  (forall op ats vs vs' o, Forall2 veq vs vs' -> sem op ats vs = Some o -> exists o', sem op ats vs' = Some o' /\ Forall2 veq o o') ->
  forall g e o x, ssa V (g_nodes g) e -> x <> o ->
    (forall ef a, eval V sem (g_nodes g) e = Some ef -> ef o = Some a -> exists b, ef x = Some b /\ veq a b) ->
    avail_before V sem (g_nodes g) e x o ->
    refines V veq sem g (redirect_remove o x g) e.
Proof. exact redirect_remove_sound. Qed.
Print Assumptions C02_redirect_remove_sound.

Theorem C02_reshape_identity : forall (A : Type) (x : tensor A), teq (reshape (shape x) x) x.
Proof. exact @reshape_identity. Qed.
Print Assumptions C02_reshape_identity.

Theorem C02_reshape_reshape : forall (A : Type) (s1 s2 : list nat) (x : tensor A),
  prod s2 = prod s1 -> teq (reshape s2 (reshape s1 x)) (reshape s2 x).
Proof. exact @reshape_reshape. Qed.
Print Assumptions C02_reshape_reshape.

(* the pass is sound for every graph that is admissible (SSA, true shape/constant annotations) WHEN THE PASS STARTS:
   admissibility is preserved by every iteration (Preserve.v: the rewrite keeps every other value up to teq) *)
Theorem C02_idreshape_pass_sound :
  forall (A : Type) (sem : string -> list nat -> list (tensor A) -> option (list (tensor A))),
  (forall op ats vs vs' o, Forall2 teq vs vs' -> sem op ats vs = Some o -> exists o', sem op ats vs' = Some o' /\ Forall2 teq o o') ->
  forall denotes : tensor A -> list Z -> Prop,
  (forall ats vs o, sem "Reshape"%string ats vs = Some o ->
     exists x sv, vs = [x; sv] /\ forall tgt, denotes sv tgt -> Forall (fun d => (0 <= d)%Z) tgt -> o = [reshape (map Z.to_nat tgt) x]) ->
  (forall a a' l, teq a a' -> denotes a l -> denotes a' l) ->
  forall fuel g e, admissible A sem denotes g e ->
    refines (tensor A) teq sem (rg_graph g) (rg_graph (idreshape_pass fuel g)) e.
Proof. exact IdReshapePass.idreshape_pass_sound. Qed.
Print Assumptions C02_idreshape_pass_sound.

Theorem C02_redirect_remove_env :
  forall (V : Type) (veq : V -> V -> Prop), (forall a, veq a a) -> (forall a b, veq a b -> veq b a) ->
  (forall a b c, veq a b -> veq b c -> veq a c) ->
  forall sem : string -> list nat -> list V -> option (list V),
  (forall op ats vs vs' o, Forall2 veq vs vs' -> sem op ats vs = Some o -> exists o', sem op ats vs' = Some o' /\ Forall2 veq o o') ->
  forall g e o x ef, ssa V (g_nodes g) e -> x <> o ->
    (forall a, ef o = Some a -> exists b, ef x = Some b /\ veq a b) ->
    avail_before V sem (g_nodes g) e x o ->
    eval V sem (g_nodes g) e = Some ef ->
    exists ef', eval V sem (g_nodes (redirect_remove o x g)) e = Some ef' /\
      forall y a', y <> o -> ef' y = Some a' -> exists a, ef y = Some a /\ veq a a'.
Proof. exact Preserve.redirect_remove_env. Qed.
Print Assumptions C02_redirect_remove_env.

(* ---- two more passes verified end to end: remove_redundant_reshape_pairs_ir and remove_redundant_transpose_pairs_ir.
        Models in theories/ReshapePairPass.v / TransposePairPass.v (tied to the real passes by differential run on random
        onnx_ir graphs: harness/c02_passes.py); tensor algebra in ElemCommute.v (n-ary pointwise operators with numpy
        broadcasting against one-element operands commute with every Reshape and, when no operand outranks the data,
        with Transpose); the rewrite changes the values of the chain's intermediate names, so soundness is a simulation
        argument (ChainSim.v) rather than an instance of Redirect.v.  Operator semantics enter as hypotheses stated once
        for fixed operator lists (ElemSem.v); the translated ALLOWED_ELEMWISE is connected to them by ElemSem.allowed_in_pw,
        so a non-pointwise operator added to the Python table breaks the proofs. *)
From J2O Require Import ElemCommute ElemSem ChainSim ReshapePairPass TransposePairPass.

Theorem C02_pointwise_commutes_with_reshape : forall (A : Type) (F : list A -> A) (vs vs' : list (tensor A)),
  Forall2 flat_eq vs vs' -> operands_ok vs -> operands_ok vs' -> flat_eq (pwn F vs) (pwn F vs').
Proof. exact (@pwn_flat). Qed.
Print Assumptions C02_pointwise_commutes_with_reshape.

Theorem C02_pointwise_with_scalars_commutes_with_transpose :
  forall (A : Type) (F : list A -> A) (p : list nat) (vs vs' : list (tensor A)),
  is_perm p -> Forall2 (trel p) vs vs' ->
  Exists (fun v => length (shape v) = length p) vs -> Forall (fun v => length (shape v) <= length p) vs -> operands_ok vs ->
  operands_ok vs' /\ teq (pwn F vs) (transpose p (pwn F vs')) /\ length (shape (pwn F vs')) = length p.
Proof. exact (@pwn_transpose). Qed.
Print Assumptions C02_pointwise_with_scalars_commutes_with_transpose.

Theorem C02_allowed_elemwise_are_modelled_operators : forall op,
  str_in op ALLOWED_ELEMWISE = true -> op = "CastLike"%string \/ str_in op pw_ops = true.
Proof. exact allowed_in_pw. Qed.
Print Assumptions C02_allowed_elemwise_are_modelled_operators.

(* remove_redundant_reshape_pairs_ir (with the rank guard of the repaired pass), for every annotated SSA graph over tensors
   of any element type whose annotations (declared dims under one binding of the symbols, one-element flags, ranks of
   constant payloads) are true at run time *)
Theorem C02_reshape_pair_pass_sound :
  forall (A : Type) (sem : string -> list nat -> list (tensor A) -> option (list (tensor A))),
  (forall op ats vs vs' o, Forall2 teq vs vs' -> sem op ats vs = Some o -> exists o', sem op ats vs' = Some o' /\ Forall2 teq o o') ->
  sem_reshape_spec A sem ->
  forall F : string -> list nat -> list A -> A, sem_pointwise_spec A sem F ->
  forall Fcl : list nat -> tensor A -> A -> A, sem_castlike_spec A sem Fcl -> castlike_type_only A Fcl ->
  sem_accepts_spec A sem ->
  forall fuel g e, ReshapePairPass.admissible_along A sem fuel g e ->
    refines (tensor A) teq sem (pg_graph g) (pg_graph (reshape_pair_pass fuel g)) e.
Proof. exact ReshapePairPass.reshape_pair_pass_sound. Qed.
Print Assumptions C02_reshape_pair_pass_sound.

(* HISTORY: the pass as it was before the repair (no rank test on one-element side constants) folds
   x:[6] -Reshape-> [2,3] -Max(., c:[1,1])-> -Reshape-> [6] as well, and the value that then replaces the [6]-shaped output
   has shape [1,6] (genuine defect, reproduced with onnxruntime: .scratch/c02p/defect_reshape_pair_rank.py); the repaired
   pass keeps the pair *)
Theorem C02_reshape_pair_prerepair_rank_defect :
  pg_nodes (reshape_pair_pass_prerepair 5 (ex_graph 8)) = [mkNode "Max" [] [1; 8] [] [4]; mkNode "Relu" [] [4] [] [9]]
  /\ pg_shape (ex_graph 8) 6 = Some [DInt 6]
  /\ pg_shape (reshape_pair_pass_prerepair 5 (ex_graph 8)) 4 = Some [DInt 1; DInt 6]
  /\ List.length (pg_nodes (reshape_pair_pass 5 (ex_graph 8))) = 4.
Proof. exact (conj (proj1 reshape_pair_prerepair_rank_defect) (conj (proj1 (proj2 reshape_pair_prerepair_rank_defect))
         (conj (proj2 (proj2 reshape_pair_prerepair_rank_defect)) reshape_pair_higher_rank_constant_kept))). Qed.
Print Assumptions C02_reshape_pair_prerepair_rank_defect.

(* remove_redundant_transpose_pairs_ir: the COMPLETE decision is modelled (TransposePairPass.decide_step: Add chains, forests,
   single-source DAGs, single-consumer chains, multi-consumer pairs); soundness is proved for the action kinds of
   TransposePairPass.proved_kind — the direct inverse pair (phase "Pass 0"), the single-consumer ALLOWED_ELEMWISE chain with
   one-element side operands (CastLike taking the chain value as data operand), and the multi-consumer bypass — and for every
   run of the pass that only takes such actions.  The Add-chain and forest actions are modelled and tied, not proved. *)
Theorem C02_transpose_pair_action_sound :
  forall (A : Type) (sem : string -> list nat -> list (tensor A) -> option (list (tensor A))),
  (forall op ats vs vs' o, Forall2 teq vs vs' -> sem op ats vs = Some o -> exists o', sem op ats vs' = Some o' /\ Forall2 teq o o') ->
  sem_transpose_spec A sem op_type ->
  forall F : string -> list nat -> list A -> A, sem_pointwise_spec_n A sem op_type F ->
  forall Fcl : list nat -> tensor A -> A -> A, sem_castlike_spec_n A sem op_type Fcl -> castlike_type_only A Fcl ->
  sem_accepts_spec_n A sem op_type ->
  forall g act e, tadmissible A sem g e -> decide_step g = Some act -> proved_kind act = true ->
    refines (tensor A) teq sem (tg_graph g) (tg_graph (apply_taction g act)) e.
Proof. exact transpose_pair_action_sound. Qed.
Print Assumptions C02_transpose_pair_action_sound.

Theorem C02_transpose_pair_pass_sound :
  forall (A : Type) (sem : string -> list nat -> list (tensor A) -> option (list (tensor A))),
  (forall op ats vs vs' o, Forall2 teq vs vs' -> sem op ats vs = Some o -> exists o', sem op ats vs' = Some o' /\ Forall2 teq o o') ->
  sem_transpose_spec A sem op_type ->
  forall F : string -> list nat -> list A -> A, sem_pointwise_spec_n A sem op_type F ->
  forall Fcl : list nat -> tensor A -> A -> A, sem_castlike_spec_n A sem op_type Fcl -> castlike_type_only A Fcl ->
  sem_accepts_spec_n A sem op_type ->
  forall fuel g e, tadmissible_along A sem fuel g e ->
    refines (tensor A) teq sem (tg_graph g) (tg_graph (transpose_pair_pass fuel g)) e.
Proof. exact transpose_pair_pass_sound. Qed.
Print Assumptions C02_transpose_pair_pass_sound.

(* ---- remove_redundant_transpose_pairs_ir, EVERY phase: the Add-chain phase ("Pass -1") and the forest phase ("Pass -0.5",
        which does most of the real folding) are proved as well (theories/TransposeRegion.v: the region rewrite is one
        renaming of the kept nodes; simulation with the invariant "old value of a region output == Transpose p (new value)",
        ElemCommute.pwn_transpose node by node, the rank bound from T2's acceptance along consumer paths).  Both need the
        guards added to /repo after this proof attempt exposed that, with a self-inverse perm, a Transpose can be an input
        and a consumer of the region at once (fe64f21 and the Add-chain repair).  No world hypothesis besides SSA and true
        one-element flags: the pointwise operators are read with GENERAL numpy broadcasting (ElemBroadcast.v: [pwg],
        [sem_pointwise_spec_g]; two transposed operands of a region member may broadcast against each other), which implies
        the restricted reading [sem_pointwise_spec_a] the chain folds use (ElemBroadcast.spec_g_a).  The residual action
        kinds outside proved_kind_all are listed at its definition. *)
From J2O Require Import ElemBroadcast TransposeRegion.

Theorem C02_transpose_pair_action_sound_all :
  forall (A : Type) (sem : string -> list nat -> list (tensor A) -> option (list (tensor A))),
  (forall op ats vs vs' o, Forall2 teq vs vs' -> sem op ats vs = Some o -> exists o', sem op ats vs' = Some o' /\ Forall2 teq o o') ->
  sem_transpose_spec A sem op_type ->
  forall F : string -> list nat -> list A -> A, sem_pointwise_spec_g A sem op_type F ->
  forall Fcl : list nat -> tensor A -> A -> A, sem_castlike_spec_n A sem op_type Fcl -> castlike_type_only A Fcl ->
  sem_accepts_spec_g A sem op_type ->
  forall g act e, tadmissible A sem g e -> decide_step g = Some act -> proved_kind_all g act = true ->
    refines (tensor A) teq sem (tg_graph g) (tg_graph (apply_taction g act)) e.
Proof. exact transpose_pair_action_sound_all. Qed.
Print Assumptions C02_transpose_pair_action_sound_all.

Theorem C02_transpose_pair_pass_sound_all :
  forall (A : Type) (sem : string -> list nat -> list (tensor A) -> option (list (tensor A))),
  (forall op ats vs vs' o, Forall2 teq vs vs' -> sem op ats vs = Some o -> exists o', sem op ats vs' = Some o' /\ Forall2 teq o o') ->
  sem_transpose_spec A sem op_type ->
  forall F : string -> list nat -> list A -> A, sem_pointwise_spec_g A sem op_type F ->
  forall Fcl : list nat -> tensor A -> A -> A, sem_castlike_spec_n A sem op_type Fcl -> castlike_type_only A Fcl ->
  sem_accepts_spec_g A sem op_type ->
  forall fuel g e, tadmissible_along_all A sem fuel g e ->
    refines (tensor A) teq sem (tg_graph g) (tg_graph (transpose_pair_pass fuel g)) e.
Proof. exact transpose_pair_pass_sound_all. Qed.
Print Assumptions C02_transpose_pair_pass_sound_all.

(* ---- both passes, for every graph that is admissible WHEN THE PASS STARTS: what the pass reads (declared dims, one-element
        flags, payload ranks; for the transpose pass the one-element flags) is preserved by
        every rewrite (final-environment form of the simulation, ChainSim.sim_env), so nothing semantic is assumed of the
        intermediate graphs.  For the reshape pass this needed the repair of the stale-annotation defect found on the way
        (_refresh_elementwise_output_shape(rewired=True) clears an annotation it cannot recompute) and the soundness of
        _broadcast_shape_dims on the operand lists of a folded chain member (ReshapePairPass.broadcast_dims_data).  For the
        transpose pass what remains along the loop is purely computational: every action taken is of a proved kind
        (TransposeRegion.kinds_along, a boolean function of the input graph). *)
Theorem C02_reshape_pair_step_admissible :
  forall (A : Type) (sem : string -> list nat -> list (tensor A) -> option (list (tensor A))),
  (forall op ats vs vs' o, Forall2 teq vs vs' -> sem op ats vs = Some o -> exists o', sem op ats vs' = Some o' /\ Forall2 teq o o') ->
  sem_reshape_spec A sem ->
  forall F : string -> list nat -> list A -> A, sem_pointwise_spec A sem F ->
  forall Fcl : list nat -> tensor A -> A -> A, sem_castlike_spec A sem Fcl -> castlike_type_only A Fcl ->
  sem_accepts_spec A sem ->
  forall g g' e ef, ReshapePairPass.admissible A sem g e -> eval (tensor A) sem (pg_nodes g) e = Some ef ->
    reshape_pair_step g = Some g' -> ReshapePairPass.admissible A sem g' e.
Proof. exact ReshapePairPass.reshape_pair_step_admissible. Qed.
Print Assumptions C02_reshape_pair_step_admissible.

Theorem C02_reshape_pair_pass_sound_start :
  forall (A : Type) (sem : string -> list nat -> list (tensor A) -> option (list (tensor A))),
  (forall op ats vs vs' o, Forall2 teq vs vs' -> sem op ats vs = Some o -> exists o', sem op ats vs' = Some o' /\ Forall2 teq o o') ->
  sem_reshape_spec A sem ->
  forall F : string -> list nat -> list A -> A, sem_pointwise_spec A sem F ->
  forall Fcl : list nat -> tensor A -> A -> A, sem_castlike_spec A sem Fcl -> castlike_type_only A Fcl ->
  sem_accepts_spec A sem ->
  forall fuel g e, ReshapePairPass.admissible A sem g e ->
    refines (tensor A) teq sem (pg_graph g) (pg_graph (reshape_pair_pass fuel g)) e.
Proof. exact ReshapePairPass.reshape_pair_pass_sound_start. Qed.
Print Assumptions C02_reshape_pair_pass_sound_start.

Theorem C02_transpose_pair_action_admissible :
  forall (A : Type) (sem : string -> list nat -> list (tensor A) -> option (list (tensor A))),
  (forall op ats vs vs' o, Forall2 teq vs vs' -> sem op ats vs = Some o -> exists o', sem op ats vs' = Some o' /\ Forall2 teq o o') ->
  sem_transpose_spec A sem op_type ->
  forall F : string -> list nat -> list A -> A, sem_pointwise_spec_g A sem op_type F ->
  forall Fcl : list nat -> tensor A -> A -> A, sem_castlike_spec_n A sem op_type Fcl -> castlike_type_only A Fcl ->
  sem_accepts_spec_g A sem op_type ->
  forall g act e ef, tadmissible A sem g e -> eval (tensor A) sem (tg_nodes g) e = Some ef ->
    decide_step g = Some act -> proved_kind_all g act = true -> tadmissible A sem (apply_taction g act) e.
Proof. exact transpose_pair_action_admissible. Qed.
Print Assumptions C02_transpose_pair_action_admissible.

Theorem C02_transpose_pair_pass_sound_start :
  forall (A : Type) (sem : string -> list nat -> list (tensor A) -> option (list (tensor A))),
  (forall op ats vs vs' o, Forall2 teq vs vs' -> sem op ats vs = Some o -> exists o', sem op ats vs' = Some o' /\ Forall2 teq o o') ->
  sem_transpose_spec A sem op_type ->
  forall F : string -> list nat -> list A -> A, sem_pointwise_spec_g A sem op_type F ->
  forall Fcl : list nat -> tensor A -> A -> A, sem_castlike_spec_n A sem op_type Fcl -> castlike_type_only A Fcl ->
  sem_accepts_spec_g A sem op_type ->
  forall fuel g e, tadmissible A sem g e -> kinds_along fuel g = true ->
    refines (tensor A) teq sem (tg_graph g) (tg_graph (transpose_pair_pass fuel g)) e.
Proof. exact transpose_pair_pass_sound_start. Qed.
Print Assumptions C02_transpose_pair_pass_sound_start.

(* ---- a fifth pass verified end to end: remove_redundant_transpose_add_forests_ir (model TransposeAddForestPass.v: the
        breadth-first walk of _collect_add_transpose_forest, the guard added to /repo after the double-role defect, the region
        rewrite; soundness TransposeAddForestSound.v, an instance of the region theorem) — for every graph admissible when
        the pass starts, with no condition on the actions taken *)
From J2O Require Import TransposeAddForestPass TransposeAddForestSound.
Theorem C02_transpose_add_forest_pass_sound :
  forall (A : Type) (sem : string -> list nat -> list (tensor A) -> option (list (tensor A))),
  (forall op ats vs vs' o, Forall2 teq vs vs' -> sem op ats vs = Some o -> exists o', sem op ats vs' = Some o' /\ Forall2 teq o o') ->
  sem_transpose_spec A sem op_type ->
  forall F : string -> list nat -> list A -> A, sem_pointwise_spec_g A sem op_type F ->
  forall Fcl : list nat -> tensor A -> A -> A, sem_castlike_spec_n A sem op_type Fcl -> castlike_type_only A Fcl ->
  sem_accepts_spec_g A sem op_type ->
  forall fuel g e, tadmissible A sem g e ->
    refines (tensor A) teq sem (tg_graph g) (tg_graph (addforest_pass fuel g)) e.
Proof. exact addforest_pass_sound. Qed.
Print Assumptions C02_transpose_add_forest_pass_sound.

(* ---- a sixth pass: remove_redundant_transpose_reduce_ir (model TransposeReducePass.v, soundness TransposeReduceSound.v).
        ReduceMean (keepdims = 1) is an ABSTRACT axis-indexed operator [reduce S x] with four laws [reduce_laws]: it reads S as
        a set, respects tensor equality, keeps the rank, and
             reduce S (transpose p x) == transpose p (reduce p[S] x).
        [red_sem] is the ONNX reading of the axes (negative axes count from the end, out-of-range axes are rejected,
        no / empty axes = all axes).  First statement: the arithmetic of the pass (normalise against len(perm1), map through
        perm1, sort) is exactly that law's instance, for every rank, perm, axes list (attribute or constant input, also
        absent / empty).  Second and third: one rewrite, and the whole pass, for every graph admissible when the pass starts;
        for the input form of the axes the pass inserts a Constant node holding the re-mapped axes in front of the reducer
        (hypothesis [sem_constant_spec]: such a node evaluates to that integer vector). *)
From J2O Require Import TransposeReducePass TransposeReduceSound.
Theorem C02_transpose_reduce_axes_law :
  forall (A : Type) (reduce : list nat -> tensor A -> tensor A), reduce_laws A reduce ->
  forall p x oax y, is_perm p -> length p = length (shape x) -> red_sem A reduce oax (transpose p x) = Some y ->
    match oax with
    | None => exists y', red_sem A reduce None x = Some y' /\ teq y (transpose p y') /\ length (shape y') = length p
    | Some ax => exists l y', map_axes p ax = Some l /\ red_sem A reduce (Some (map Z.of_nat (sort_nat l))) x = Some y' /\
                              teq y (transpose p y') /\ length (shape y') = length p
    end.
Proof. exact reduce_axes_law. Qed.
Print Assumptions C02_transpose_reduce_axes_law.

Theorem C02_transpose_reduce_action_sound :
  forall (A : Type) (sem : string -> list nat -> list (tensor A) -> option (list (tensor A))),
  (forall op ats vs vs' o, Forall2 teq vs vs' -> sem op ats vs = Some o -> exists o', sem op ats vs' = Some o' /\ Forall2 teq o o') ->
  sem_transpose_spec A sem op_type ->
  forall reduce, reduce_laws A reduce ->
  forall denoteZ, (forall v v', teq v v' -> denoteZ v = denoteZ v') -> sem_reducemean_spec A sem op_type denoteZ reduce ->
  forall mkZ : list Z -> tensor A, (forall l, denoteZ (mkZ l) = Some l) -> sem_constant_spec A sem mkZ ->
  forall g T2 a e ef, radm A sem denoteZ g e -> tight A g e -> In T2 (rt_nodes g) -> decide_tr g T2 = Some a ->
    eval (tensor A) sem (rt_nodes g) e = Some ef ->
    radm A sem denoteZ (apply_tr g a) e /\ tight A (apply_tr g a) e /\
    (forall o, run (tensor A) sem (rt_graph g) e = Some o ->
       exists o', run (tensor A) sem (rt_graph (apply_tr g a)) e = Some o' /\ Forall2 teq o o').
Proof. exact transpose_reduce_step_sound. Qed.
Print Assumptions C02_transpose_reduce_action_sound.

(* the pass: PLAIN refinement (the re-mapped axes are defined by a Constant node of the rewritten graph: nothing is added to
   the environment), for every graph admissible when the pass starts; [tight]: the names the environment defines are below
   the graph's name counter (the created name is unused) *)
Theorem C02_transpose_reduce_pass_sound :
  forall (A : Type) (sem : string -> list nat -> list (tensor A) -> option (list (tensor A))),
  (forall op ats vs vs' o, Forall2 teq vs vs' -> sem op ats vs = Some o -> exists o', sem op ats vs' = Some o' /\ Forall2 teq o o') ->
  sem_transpose_spec A sem op_type ->
  forall reduce, reduce_laws A reduce ->
  forall denoteZ, (forall v v', teq v v' -> denoteZ v = denoteZ v') -> sem_reducemean_spec A sem op_type denoteZ reduce ->
  forall mkZ : list Z -> tensor A, (forall l, denoteZ (mkZ l) = Some l) -> sem_constant_spec A sem mkZ ->
  forall fuel g e, radm A sem denoteZ g e -> tight A g e ->
    refines (tensor A) teq sem (rt_graph g) (rt_graph (tr_pass fuel g)) e.
Proof. exact transpose_reduce_pass_sound. Qed.
Print Assumptions C02_transpose_reduce_pass_sound.

(* ---- the tensor algebra under the region folds: pointwise operators with general numpy broadcasting [pwg] commute with
        Transpose when every operand is transposed by the same permutation or is a one-element tensor, also when transposed
        operands broadcast against each other; on operand lists without genuine broadcasting [pwg] is [pwn] *)
Theorem C02_pointwise_broadcast_commutes_with_transpose :
  forall (A : Type) (F : list A -> A) (p : list nat) (vs vs' : list (tensor A)), is_perm p ->
    Forall2 (trel p) vs vs' -> Exists (fun v => length (shape v) = length p) vs ->
    Forall (fun v => length (shape v) <= length p) vs -> bcast_ok vs ->
    bcast_ok vs' /\ teq (pwg F vs) (transpose p (pwg F vs')) /\ length (shape (pwg F vs')) = length p.
Proof. exact @pwg_transpose. Qed.
Print Assumptions C02_pointwise_broadcast_commutes_with_transpose.

Theorem C02_broadcast_pointwise_restricts_to_pwn :
  forall (A : Type) (F : list A -> A) (vs : list (tensor A)), operands_ok vs -> bcast_ok vs /\ teq (pwg F vs) (pwn F vs).
Proof. exact @pwg_restricts. Qed.
Print Assumptions C02_broadcast_pointwise_restricts_to_pwn.

(* ---- THE PIPELINE: optimize_graph runs _OPTIMIZER_PASSES in a fixed order on the top graph and then every function-scoped
        pass on every function body.  theories/OptimizePipeline.v composes the verified pass models IN THE ORDER OF THE TABLE
        TRANSLATED FROM THE SOURCE (gen/GenOptPasses.v: label, function that runs, runs on function bodies?; labels =
        GenOpt.OPTIMIZER_PASS_NAMES) on one common annotated graph [ograph] (declared dtypes / dims, constant payloads with
        their one-element test and rank), each model working on its own view of it.  For every graph admissible WHEN
        OPTIMISATION STARTS ([padm]: SSA, declared dims true of every successful run, the constant payloads the passes resolve
        belong to names the environment defines and are true of it) the pipeline refines the graph; the final environment is
        the given one plus the initializers the passes created ([pext]).
        What is discharged: remove_redundant_transpose_reduce_ir, ..._transpose_add_forests_ir, ..._transpose_pairs_ir,
        ..._reshape_pairs_ir, remove_identity_reshapes_ir, remove_orphan_transposes_ir (each preserves the COMMON
        admissibility: its own theorems + frame lemmas for the annotations it does not model; the transpose-reduce fold
        copies/clears the reducer's declared shape — the stale-annotation defect found here and repaired in /repo);
        propagate_unary_shapes_ir (PropagateShapes.v, annotations only; true by C08's rule "same shape as the first input":
        Annot.first_input_shape_ops / Annot.unary_dataflow_ops_same_shape reused); rewrite_mul_sigmoid_as_swish_ir
        (SwishPass.v, from opset 24, with the observer conditions; hypothesis: Swish(x) = x * Sigmoid(x));
        prune_unused_graph_inputs_ir (touches graph.inputs only: the identity on [ograph]; the interface side is C05);
        inline_dropout_training_mode_constants_ir (DropoutPass.v: Not(scalar True) feeding a Dropout's training_mode is
        replaced EVERYWHERE by the initializer false_const, existing or created; hypotheses: Not negates a scalar boolean and
        keeps the shape, Dropout's training_mode is a scalar, two scalar booleans with the same content are equal).
        propagate_elementwise_shapes_ir (PropagateShapes.v: the non-rewired _refresh_elementwise_output_shape on the nodes of
        ELEMENTWISE_BINARY_OPS; the declared broadcast is true by RefreshSound.broadcast_dims_bshape — the model of
        _broadcast_shape_dims never contradicts the GENERAL numpy broadcast of the run-time operands).
        remove_dead_nodes_ir (DcePass.v: the library's RemoveUnusedNodesPass restricted to plain dead-code elimination, one
        reverse sweep; the model is fail-closed — identity unless every node has exactly one output, i.e. nothing for the
        library's optional-output trimming to do —, the same condition is a guard of the theorem).
        What remains a hypothesis, exactly:
          [unmodelled_ok U]  every function of UNMODELLED_RUNNERS (= the table minus the verified models, lemma
                             OptimizePipeline.unmodelled_exact) refines and keeps the graph admissible: name_fix, CSE,
                             lift_constants_to_initializers, rewrite_mul_rsqrt_as_div — and remove_redundant_casts_ir (both entries): it
                             IS verified, but over typed tensors (CastPass.v, ttensor/tteq); this theorem is over [tensor A]/teq,
                             and no embedding of ttensor into [tensor A] lets teq see the dtype of an EMPTY tensor;
          (nothing about the Transpose folds any more: their value frames are proved — TransposeRegion.region_frame,
                             transpose_pair_action_frame, TransposeAddForestSound.addforest_step_frame — and the declared dims
                             after the folds are proved true from the modelled, tied rewired refresh: TransposeRefresh.v,
                             OptimizePipeline.refresh_fold_true, RefreshSound.broadcast_dims_bshape);
          [kinds_ok_*]       boolean: remove_dead_nodes meets a graph of single-output nodes (dce_guard); every action of the
                             Transpose-pair pass is of a proved kind (kinds_along), and every fold
                             of the Transpose-reduce pass has its axes as an ATTRIBUTE or none (axes_attr_along): with the axes
                             as an input the pass now inserts a Constant node — proved for the pass on its own
                             (C02_transpose_reduce_pass_sound, plain refinement) — but the common admissibility keeps constant
                             payloads in the environment, and a constant defined by a node is outside it;
          [opt_world]        the union of the passes' semantic hypotheses (Transpose, Reshape, pointwise table operators with
                             numpy broadcasting, CastLike, abstract ReduceMean with the permute/re-map law, integer vectors). *)
From J2O Require Import OptGraph OptimizePipeline.
Theorem C02_optimize_pipeline_sound :
  forall (A : Type) sem F Fcl reduce denoteZ mkZ denoteB mkB, opt_world A sem F Fcl reduce denoteZ mkZ denoteB mkB ->
  forall fuel opset U, unmodelled_ok A sem denoteZ denoteB U ->
  forall g e, kinds_ok_top fuel opset U g -> padm A sem denoteZ denoteB g e ->
  forall o, run (tensor A) sem (o_graph g) e = Some o ->
  exists e' o', pext A denoteZ denoteB (optimize_top fuel opset U g) e e' /\ padm A sem denoteZ denoteB (optimize_top fuel opset U g) e' /\
                run (tensor A) sem (o_graph (optimize_top fuel opset U g)) e' = Some o' /\ Forall2 teq o o'.
Proof. exact optimize_graph_sound. Qed.
Print Assumptions C02_optimize_pipeline_sound.

Theorem C02_optimize_pipeline_sound_function_bodies :
  forall (A : Type) sem F Fcl reduce denoteZ mkZ denoteB mkB, opt_world A sem F Fcl reduce denoteZ mkZ denoteB mkB ->
  forall fuel opset U, unmodelled_ok A sem denoteZ denoteB U ->
  forall g e, kinds_ok_body fuel opset U g -> padm A sem denoteZ denoteB g e ->
  forall o, run (tensor A) sem (o_graph g) e = Some o ->
  exists e' o', pext A denoteZ denoteB (optimize_body fuel opset U g) e e' /\ padm A sem denoteZ denoteB (optimize_body fuel opset U g) e' /\
                run (tensor A) sem (o_graph (optimize_body fuel opset U g)) e' = Some o' /\ Forall2 teq o o'.
Proof. exact optimize_graph_sound_function_bodies. Qed.
Print Assumptions C02_optimize_pipeline_sound_function_bodies.

(* the order the two theorems are about is the one of the source table *)
Theorem C02_optimize_pipeline_order :
  map fst GenOptPasses.OPTIMIZER_PASS_TABLE = OPTIMIZER_PASS_NAMES /\
  top_runners = map (fun r => fst (snd r)) GenOptPasses.OPTIMIZER_PASS_TABLE /\
  body_runners = map (fun r => fst (snd r)) (filter (fun r => snd (snd r)) GenOptPasses.OPTIMIZER_PASS_TABLE).
Proof. exact (conj table_labels (conj eq_refl eq_refl)). Qed.
Print Assumptions C02_optimize_pipeline_order.
