(* C14 — export is deterministic and independent of history.
   Only statements here; models and proofs live in theories/Determinism.v (site list with file:line there).
   CPython's hash order, id() values and onnx_ir's per-value use order are NOT modelled: they are covered
   by the harness sweep (harness/c14.py) only. *)
From Coq Require Import String List Arith Bool PeanoNat Permutation.
From J2O Require Import Graph Determinism.
Import ListNotations.

(* ---- (a) schema: a loop over a set whose per-element actions commute computes EQUAL results for
   every iteration order *)
Theorem C14_fold_order_irrelevant : forall (A S : Type) (act : A -> S -> S),
  (forall a b s, act a (act b s) = act b (act a s)) ->
  forall l l', Permutation l l' -> forall s0,
  fold_left (fun s a => act a s) l s0 = fold_left (fun s a => act a s) l' s0.
Proof. exact fold_order_irrelevant. Qed.
Print Assumptions C14_fold_order_irrelevant.

(* S1 S9: `for t in output_transposes: replace_all_uses_with(t_out, t_in)` under the exact side
   condition (distinct olds, no new equal to another member's old) *)
Theorem C14_site_rauw_order_irrelevant : forall l l' g,
  (forall a b, In a l -> In b l -> a = b \/
     (fst a <> fst b /\ snd a <> fst b /\ snd b <> fst a)) ->
  Permutation l l' ->
  fold_left (fun s p => replace_all_uses (fst p) (snd p) s) l g =
  fold_left (fun s p => replace_all_uses (fst p) (snd p) s) l' g.
Proof. exact site_rauw_order_irrelevant. Qed.
Print Assumptions C14_site_rauw_order_irrelevant.

(* ... which the matching logic establishes: olds are outputs of distinct nodes, no new is an old *)
Theorem C14_site_rauw_side_condition : forall l : list (name * name),
  NoDup (map fst l) -> (forall a b, In a l -> In b l -> snd a <> fst b) ->
  forall a b, In a l -> In b l -> a = b \/ rauw_compat a b.
Proof. exact rauw_side_condition. Qed.
Print Assumptions C14_site_rauw_side_condition.

(* any(...)/all(...) of a read-only predicate over a set *)
Theorem C14_any_all_over_set_order_irrelevant : forall (A : Type) (p : A -> bool) l l', Permutation l l' ->
  existsb p l = existsb p l' /\ forallb p l = forallb p l'.
Proof. exact @any_all_over_set_order_irrelevant. Qed.
Print Assumptions C14_any_all_over_set_order_irrelevant.

(* S2 S4 S10: graph.remove(list(<set>)) *)
Theorem C14_remove_list_of_set_order_irrelevant : forall dead dead' g,
  Permutation dead dead' -> remove_producers dead g = remove_producers dead' g.
Proof. exact remove_list_of_set_order_irrelevant. Qed.
Print Assumptions C14_remove_list_of_set_order_irrelevant.

(* S3 S13: read-only loop collecting a list that is then removed *)
Theorem C14_site_collect_remove_order_irrelevant : forall removable l l' g,
  Permutation l l' -> site_collect_remove removable l g = site_collect_remove removable l' g.
Proof. exact site_collect_remove_order_irrelevant. Qed.
Print Assumptions C14_site_collect_remove_order_irrelevant.

(* S11: removal inside the loop guarded by a test against a snapshot *)
Theorem C14_site_remove_unused_order_irrelevant : forall unused l l' g,
  Permutation l l' ->
  fold_left (fun s t => remove_unused_act unused t s) l g = fold_left (fun s t => remove_unused_act unused t s) l' g.
Proof. exact site_remove_unused_order_irrelevant. Qed.
Print Assumptions C14_site_remove_unused_order_irrelevant.

(* S5: agreement of the source permutations (loop with break) *)
Theorem C14_site_perm_agree_order_irrelevant : forall l l', Permutation l l' -> perm_loop l = perm_loop l'.
Proof. exact site_perm_agree_order_irrelevant. Qed.
Print Assumptions C14_site_perm_agree_order_irrelevant.

(* S6 S12: read-only check with break, and the set it collects *)
Theorem C14_site_check_collect_order_irrelevant : forall (A : Type) (good : A -> bool) outs (l l' : list A),
  Permutation l l' ->
  match check_collect good outs l, check_collect good outs l' with
  | Some s, Some s' => Permutation s s'
  | None, None => True
  | _, _ => False
  end.
Proof. exact @site_check_collect_order_irrelevant. Qed.
Print Assumptions C14_site_check_collect_order_irrelevant.

(* S7: the dict built from the set answers every lookup the same *)
Theorem C14_site_build_map_order_irrelevant : forall d d', NoDup (map fst d) -> Permutation d d' ->
  forall k, dict_get k d = dict_get k d'.
Proof. exact site_build_map_order_irrelevant. Qed.
Print Assumptions C14_site_build_map_order_irrelevant.

(* S12: every member rewrites its own inputs *)
Theorem C14_site_rewire_order_irrelevant : forall old new l l' g,
  Permutation l l' ->
  fold_left (fun s m => rewire_act old new m s) l g = fold_left (fun s m => rewire_act old new m s) l' g.
Proof. exact site_rewire_order_irrelevant. Qed.
Print Assumptions C14_site_rewire_order_irrelevant.

(* S8, code up to /repo aca2665 (remove_redundant_transpose_pairs_ir :1550): rewire + shape refresh in set
   order.  Kept as documentation of the defect fixed in 77c9ea7; the models of the fixed code follow (S8').
   The full-strength statement is FALSE of the faithful model of the old code ... *)
Theorem C14_site_refresh_order_irrelevant_refuted :
  exists F l l' sh dom, Permutation l l' /\
    map (fold_left (fun s m => refresh_act F m s) l sh) dom <>
    map (fold_left (fun s m => refresh_act F m s) l' sh) dom.
Proof. exact site_refresh_order_irrelevant_refuted. Qed.
Print Assumptions C14_site_refresh_order_irrelevant_refuted.

(* ... and holds exactly when no member reads another member's output (NOT guaranteed by the pass:
   elem_nodes is a connected elementwise DAG) *)
Theorem C14_site_refresh_order_irrelevant_partial : forall F (l l' : list (name * list name)) sh dom,
  (forall a b, In a l -> In b l -> a = b \/
     (fst a <> fst b /\ ~ In (fst a) (snd b) /\ ~ In (fst b) (snd a))) ->
  Permutation l l' ->
  map (fold_left (fun s m => refresh_act F m s) l sh) dom =
  map (fold_left (fun s m => refresh_act F m s) l' sh) dom.
Proof. exact site_refresh_partial. Qed.
Print Assumptions C14_site_refresh_order_irrelevant_partial.

(* S8' (77c9ea7): the loop over the set only rewires each member's own inputs ... *)
Theorem C14_site_rewire_map_order_irrelevant : forall d l l' g,
  Permutation l l' ->
  fold_left (fun s m => rewire_map_act d m s) l g = fold_left (fun s m => rewire_map_act d m s) l' g.
Proof. exact site_rewire_map_order_irrelevant. Qed.
Print Assumptions C14_site_rewire_map_order_irrelevant.

(* ... and the refresh runs over the graph's node LIST, the set answering membership only: the resulting
   annotation (as a function) is the same for every iteration order of the set *)
Theorem C14_site_refresh_graph_order_set_irrelevant : forall F elems elems' nodes sh,
  Permutation elems elems' ->
  fold_left (fun s m => refresh_act F m s) (filter (fun m => mem (fst m) elems) nodes) sh =
  fold_left (fun s m => refresh_act F m s) (filter (fun m => mem (fst m) elems') nodes) sh.
Proof. exact site_refresh_graph_order_set_irrelevant. Qed.
Print Assumptions C14_site_refresh_graph_order_set_irrelevant.

(* S14, code up to /repo aca2665 (plugins/plugin_system.py:952): names of a STRING set appended to the
   function-call inputs in set order; kept as documentation of the defect fixed in 77c9ea7 *)
Theorem C14_site_append_order_irrelevant_refuted :
  exists (keep : nat -> bool) l l' acc, Permutation l l' /\
    fold_left (fun s a => append_act keep a s) l acc <> fold_left (fun s a => append_act keep a s) l' acc.
Proof. exact site_append_order_irrelevant_refuted. Qed.
Print Assumptions C14_site_append_order_irrelevant_refuted.

Theorem C14_site_append_order_irrelevant_partial : forall (A : Type) (keep : A -> bool) l l' acc,
  length (filter keep l) <= 1 -> Permutation l l' ->
  fold_left (fun s a => append_act keep a s) l acc = fold_left (fun s a => append_act keep a s) l' acc.
Proof. exact @site_append_partial. Qed.
Print Assumptions C14_site_append_order_irrelevant_partial.

(* S14' (77c9ea7): `for pname in sorted(call_param_names)`: sorting is canonical for any decidable total order *)
Theorem C14_sorted_canonical : forall (A : Type) (leb : A -> A -> bool),
  (forall a b, leb a b = true \/ leb b a = true) ->
  (forall a b, leb a b = true -> leb b a = true -> a = b) ->
  (forall a b c, leb a b = true -> leb b c = true -> leb a c = true) ->
  forall l l', Permutation l l' -> sort_list A leb l = sort_list A leb l'.
Proof. exact sorted_canonical. Qed.
Print Assumptions C14_sorted_canonical.

(* strings = lists of code points under Python's lexicographic str order: the appended sequence is the
   same whatever the iteration order of the set *)
Theorem C14_site_append_sorted_strings_order_irrelevant : forall (keep : list nat -> bool) l l' acc,
  Permutation l l' ->
  fold_left (fun s a => append_act keep a s) (sort_list _ lex_leb l) acc =
  fold_left (fun s a => append_act keep a s) (sort_list _ lex_leb l') acc.
Proof. exact site_append_sorted_strings_order_irrelevant. Qed.
Print Assumptions C14_site_append_sorted_strings_order_irrelevant.

(* ---- (b) names are a function of the request: equivalence with "every counter is per conversion" *)
Theorem C14_names_history_independent_iff : forall c,
  all_per_conversion c = true <-> (forall h1 h2 r, names_after c h1 r = names_after c h2 r).
Proof. exact names_history_independent_iff. Qed.
Print Assumptions C14_names_history_independent_iff.

(* for the scopes of the unchanged tree (all three families constructed per IRContext/IRBuilder) *)
Theorem C14_names_history_independent : forall h1 h2 r,
  names_after (mkScopes true true true) h1 r = names_after (mkScopes true true true) h2 r.
Proof. exact names_history_independent. Qed.
Print Assumptions C14_names_history_independent.

(* a module-global function-name counter would refute it with two conversions *)
Theorem C14_names_history_independent_refuted_for_global_func_counter :
  exists h1 h2 r, names_after (mkScopes true true false) h1 r <> names_after (mkScopes true true false) h2 r.
Proof. exact names_history_independent_refuted_for_global_func_counter. Qed.
Print Assumptions C14_names_history_independent_refuted_for_global_func_counter.

(* ---- (b') plugins/jax/lax/gather.py: module-level flag _CONST_HANDLERS_REGISTERED guarding a registration
   on the per-context constant folder.  FALSE of the faithful model: a fresh process folds, a process that
   already exported a gather does not ... *)
Theorem C14_handlers_history_independent_refuted :
  exists h1 h2 r, gather_obs_after false h1 r <> gather_obs_after false h2 r.
Proof. exact handlers_history_independent_refuted. Qed.
Print Assumptions C14_handlers_history_independent_refuted.

(* ... it holds for histories without an earlier gather conversion ... *)
Theorem C14_handlers_history_partial : forall h r,
  existsb (fun u => u) h = false -> gather_obs_after false h r = gather_obs_after false [] r.
Proof. exact handlers_history_partial. Qed.
Print Assumptions C14_handlers_history_partial.

(* ... and for every history once the guard lives on the context (the proposed repair) *)
Theorem C14_handlers_history_independent_if_guard_per_context : forall h1 h2 r,
  gather_obs_after true h1 r = gather_obs_after true h2 r.
Proof. exact handlers_history_independent_if_guard_per_context. Qed.
Print Assumptions C14_handlers_history_independent_if_guard_per_context.

(* ---- (b'') scoped process-wide state (ContextVar _IN_FUNCTION_BUILD): with the restore in `finally` the
   state after ANY history of succeeding and failing conversions is the initial one ... *)
Theorem C14_contextvar_restored_on_every_exit : forall h, state_after scoped_finally h = [].
Proof. exact contextvar_restored_on_every_exit. Qed.
Print Assumptions C14_contextvar_restored_on_every_exit.

Theorem C14_failed_conversions_do_not_inline : forall h1 h2 f,
  inlined_after scoped_finally h1 f = inlined_after scoped_finally h2 f.
Proof. exact failed_conversions_do_not_inline. Qed.
Print Assumptions C14_failed_conversions_do_not_inline.

(* ... a restore that is skipped by an exception is refuted by ONE failed conversion (the harness tie checks
   that every .set() of such a variable is paired with a restore in a finally block) *)
Theorem C14_unprotected_restore_refuted :
  exists h1 h2 f, inlined_after scoped_unprotected h1 f <> inlined_after scoped_unprotected h2 f.
Proof. exact unprotected_restore_refuted. Qed.
Print Assumptions C14_unprotected_restore_refuted.

(* ---- (c) the lowering-signature memo table *)
Theorem C14_signature_cache_transparent : forall (V : Type) (f : nat -> V) ks t,
  memo_consistent V f t ->
  fst (memo_calls V f ks t) = map f ks /\ memo_consistent V f (snd (memo_calls V f ks t)).
Proof. exact signature_cache_transparent. Qed.
Print Assumptions C14_signature_cache_transparent.

Theorem C14_signature_cache_history_independent : forall (V : Type) (f : nat -> V) hist1 hist2 ks,
  fst (memo_calls V f ks (snd (memo_calls V f hist1 []))) =
  fst (memo_calls V f ks (snd (memo_calls V f hist2 []))).
Proof. exact signature_cache_history_independent. Qed.
Print Assumptions C14_signature_cache_history_independent.
