(* C05 — the model interface mirrors the callable's signature.  Statements only; proofs in theories/Interface.v
   over gen/GenInterface.v (the always-keep decision translated from the current source). *)
From Coq Require Import ZArith String List Bool.
From J2O Require Import PyLib Onnx Interface IoNames IoAlias IoResolve IoNormalize.
From J2OGen Require Import GenInterface.
Import ListNotations.

(* every positional-input name the exporter generates (plain or NCHW form, ANY index) is always kept *)
Theorem C05_keep_positional : forall i nchw, should_always_keep (Some (positional_name i nchw)) = Some true.
Proof. exact keep_positional. Qed.
Print Assumptions C05_keep_positional.

(* pruning never drops or reorders positional inputs, whether used or not *)
Theorem C05_prune_keeps_positional : forall (sel : ginput -> bool) l,
  (forall v, sel v = true -> is_positional v) -> filter sel (prune l) = filter sel l.
Proof. exact prune_keeps_positional. Qed.
Print Assumptions C05_prune_keeps_positional.

Theorem C05_prune_only_removes : forall l v, In v (prune l) -> In v l.
Proof. exact prune_is_sublist. Qed.
Print Assumptions C05_prune_only_removes.

Theorem C05_prune_keeps_used : forall l v, In v l -> gi_used v = true -> In v (prune l).
Proof. exact prune_keeps_used. Qed.
Print Assumptions C05_prune_keeps_used.

(* the element-type rule of the interface checker implies the property's clauses for every code and flag *)
Theorem C05_dtype_rule_sound : forall jax double decl,
  dtype_rule jax double decl = true ->
  (code_class jax = 0%nat -> decl = 9%Z) /\
  (code_class jax = 1%nat -> decl = jax \/ decl = 7%Z) /\
  (code_class jax = 2%nat -> code_class decl = 2%nat /\ (jax = 1%Z -> decl = if double then 11%Z else 1%Z) /\ (jax <> 1%Z -> decl = jax)) /\
  (code_class jax = 3%nat -> code_class decl = 2%nat).
Proof. exact dtype_rule_sound. Qed.
Print Assumptions C05_dtype_rule_sound.

(* what a passing interface check on an exported model means *)
Theorem C05_interface_ok_spec : forall double ins outs inn outn np m,
  interface_ok double ins outs inn outn np m = true ->
  exists g, graph_by_id m 0 = Some g /\
    List.length (og_inputs g) = (List.length ins + np)%nat /\ List.length (og_outputs g) = List.length outs /\
    (forall j v, In (j, v) (combine ins (firstn (List.length ins) (og_inputs g))) -> leaf_ok true double j v = true) /\
    (forall j v, In (j, v) (combine outs (og_outputs g)) -> leaf_ok false double j v = true) /\
    names_distinct (map vi_name (og_inputs g)) = true /\
    (outn <> None -> names_distinct (map vi_name (og_inputs g) ++ map vi_name (og_outputs g)) = true).
Proof. exact interface_ok_spec. Qed.
Print Assumptions C05_interface_ok_spec.

(* ---- user-supplied names (user_interface._apply_custom_io_names_on_ir; model theories/IoNames.v [apply_names]):
   "applied exactly and never collide", for every top graph (any number of named values) and every list of
   (value, requested name) pairs *)

(* applied exactly: every value the user names carries exactly that name afterwards *)
Theorem C05_names_applied_exactly : forall vals pairs vals',
  apply_names vals pairs = inl vals' ->
  forall v t, In (v, t) pairs -> forall n, In (v, n) vals' -> n = t.
Proof. exact apply_exact. Qed.
Print Assumptions C05_names_applied_exactly.

(* nothing else changes: same values in the same order; a value the user did not name keeps its name *)
Theorem C05_names_same_values : forall vals pairs vals',
  apply_names vals pairs = inl vals' -> map fst vals' = map fst vals.
Proof. exact apply_ids. Qed.
Print Assumptions C05_names_same_values.

Theorem C05_names_others_untouched : forall vals pairs vals',
  apply_names vals pairs = inl vals' ->
  forall v, ~ In v (map fst pairs) -> forall n, In (v, n) vals <-> In (v, n) vals'.
Proof. exact apply_keeps_others. Qed.
Print Assumptions C05_names_others_untouched.

(* never collide: pairwise distinct value names stay pairwise distinct (over ALL values of the top graph, not only
   the interface) *)
Theorem C05_names_never_collide : forall vals pairs vals',
  apply_names vals pairs = inl vals' ->
  NoDup (map fst vals) -> NoDup (map snd vals) -> NoDup (map snd vals').
Proof. exact apply_injective. Qed.
Print Assumptions C05_names_never_collide.

(* a requested name equal to the name of ANY value that keeps its name (e.g. an intermediate) is refused *)
Theorem C05_names_refuse_existing : forall vals pairs v n t w,
  In (w, t) pairs -> In (v, n) vals -> ~ In v (map fst pairs) -> n = t ->
  forall vals', apply_names vals pairs <> inl vals'.
Proof. exact apply_refuses_intermediate. Qed.
Print Assumptions C05_names_refuse_existing.

(* ---- the aliasing step before output names are applied (model theories/IoAlias.v [alias_loop]): an output that IS
   a graph input or repeats an earlier output gets an Identity value of its own, so that every leaf of the result
   can carry its own name.  For every output list (any repeats), every graph: *)

(* the `while alias_name in existing_names: alias_name += "_"` loop terminates with an unused name *)
Theorem C05_alias_name_loop_fresh : forall s existing,
  ~ In (fresh_from (List.length existing) s existing) existing.
Proof. exact fresh_from_fresh. Qed.
Print Assumptions C05_alias_name_loop_fresh.

(* one output per leaf, in order *)
Theorem C05_alias_keeps_output_count : forall outs bases taken existing next os al,
  List.length bases = List.length outs ->
  alias_loop outs bases taken existing next = (os, al) -> List.length os = List.length outs.
Proof. exact alias_loop_length. Qed.
Print Assumptions C05_alias_keeps_output_count.

(* afterwards the outputs are pairwise distinct values and none of them is a graph input *)
Theorem C05_alias_outputs_own_values : forall outs bases taken existing next os al,
  List.length bases = List.length outs ->
  (forall x, In x taken -> x < next) -> (forall x, In x outs -> x < next) ->
  alias_loop outs bases taken existing next = (os, al) ->
  NoDup os /\ (forall x, In x os -> ~ In x taken).
Proof. exact alias_loop_distinct. Qed.
Print Assumptions C05_alias_outputs_own_values.

(* position by position the output is the original value or an Identity of it *)
Theorem C05_alias_outputs_same_data : forall outs bases taken existing next os al,
  List.length bases = List.length outs ->
  alias_loop outs bases taken existing next = (os, al) ->
  Forall2 (fun v o => o = v \/ exists a, In (o, a, v) al) outs os.
Proof. exact alias_loop_sources. Qed.
Print Assumptions C05_alias_outputs_same_data.

(* the names given to the aliases are new and pairwise distinct (they cannot break the SSA naming) *)
Theorem C05_alias_names_fresh : forall outs bases taken existing next os al,
  alias_loop outs bases taken existing next = (os, al) ->
  NoDup (map (fun e => snd (fst e)) al) /\
  (forall n, In n (map (fun e => snd (fst e)) al) -> ~ In n existing).
Proof. exact alias_loop_names_fresh. Qed.
Print Assumptions C05_alias_names_fresh.

(* ---- which graph inputs the user's input_names are applied to (user_interface._resolve_positional_inputs; model
   theories/IoResolve.v [resolve]) *)

(* exactly one value per positional argument *)
Theorem C05_resolve_one_per_argument : forall ins n l, resolve ins n = Some l -> List.length l = n.
Proof. exact resolve_length. Qed.
Print Assumptions C05_resolve_one_per_argument.

(* when the positional names in_0 .. in_(n-1) are all present among the graph inputs -- in ANY order, with keyword-parameter
   inputs in between -- the k-th name goes to the input carrying index k *)
Theorem C05_resolve_by_index : forall ins n l,
  (forall k, k < n -> exists v, first_with k ins = Some v) ->
  resolve ins n = Some l ->
  forall k, k < n -> exists v, nth_error l k = Some v /\ In (v, Some k) ins.
Proof. exact resolve_by_index. Qed.
Print Assumptions C05_resolve_by_index.

(* ... and distinct arguments get distinct values (so two user names never meet on one value) *)
Theorem C05_resolve_distinct : forall ins n l,
  NoDup (map fst ins) ->
  (forall k, k < n -> exists v, first_with k ins = Some v) ->
  resolve ins n = Some l -> NoDup l.
Proof. exact resolve_by_index_NoDup. Qed.
Print Assumptions C05_resolve_distinct.

(* otherwise: the first n graph inputs, and a loud failure when there are fewer *)
Theorem C05_resolve_fallback : forall ins n,
  0 < n -> collect ins (seq 0 n) = None ->
  resolve ins n = if Nat.leb n (List.length ins) then Some (map fst (firstn n ins)) else None.
Proof. exact resolve_fallback. Qed.
Print Assumptions C05_resolve_fallback.

(* ---- validation of the user's name lists (user_interface._normalize_io_names; model theories/IoNormalize.v) *)

(* an accepted list is returned UNCHANGED (nothing stripped or rewritten: the names the user wrote are the names
   applied), its entries are strings, pairwise distinct, none blank *)
Theorem C05_normalize_accepts_unchanged : forall names l,
  normalize names = inl l ->
  names = map Some l /\ NoDup l /\ (forall s, In s l -> blank s = false).
Proof. exact normalize_ok. Qed.
Print Assumptions C05_normalize_accepts_unchanged.

(* every list of pairwise distinct non-blank strings is accepted *)
Theorem C05_normalize_complete : forall l,
  NoDup l -> (forall s, In s l -> blank s = false) -> normalize (map Some l) = inl l.
Proof. exact normalize_complete. Qed.
Print Assumptions C05_normalize_complete.

(* a repeated name or a non-string entry is refused wherever it stands *)
Theorem C05_normalize_refuses_duplicate : forall pre s mid post l,
  normalize (pre ++ Some s :: mid ++ Some s :: post) <> inl l.
Proof. exact normalize_refuses_dup. Qed.
Print Assumptions C05_normalize_refuses_duplicate.

Theorem C05_normalize_refuses_non_string : forall pre post l, normalize (pre ++ None :: post) <> inl l.
Proof. exact normalize_refuses_nonstr. Qed.
Print Assumptions C05_normalize_refuses_non_string.

(* the pieces fit: once every named value is a value of its own (C05_resolve_distinct for the inputs,
   C05_alias_outputs_own_values for the outputs), the "conflicting names for one value" refusal cannot occur --
   a list of user names is refused only for the two reasons the user can see (a repeated name, a name already
   used by a value that keeps its name) *)
Theorem C05_names_no_conflict_after_aliasing : forall vals pairs,
  NoDup (map fst pairs) -> apply_names vals pairs <> inr Conflict.
Proof. exact apply_no_conflict. Qed.
Print Assumptions C05_names_no_conflict_after_aliasing.
