(* C03 — every export is a well-formed, loadable ONNX model.
   Only statements here.  Proofs: theories/WfCheck.v (validator, specification, meta-theorem) and
   theories/Names.v (naming discipline, over gen/GenNames.v = the current /repo code). *)
From Coq Require Import ZArith String List Bool.
From J2O Require Import PyLib Onnx WfCheck Names.
From J2OGen Require Import GenNames.
Import ListNotations.
Local Open Scope string_scope.
Local Open Scope list_scope.

(* ================================================================== (V) the validator *)
(* the boolean validator run on every real export implies the declarative specification *)
Theorem C03_wf_model_sound : forall m, wf_model m = true -> WF m.
Proof. exact wf_model_sound. Qed.
Print Assumptions C03_wf_model_sound.

(* why WF matters: whatever the operators compute (uninterpreted op_out), whatever a control-flow node feeds to
   its bodies (body_arg) and whatever the initializers hold, evaluating a WF model — main graph with all nested
   bodies, and every function body — never fails on a name lookup (and needs no more fuel than the table depth) *)
Theorem C03_WF_eval_never_fails : forall m, WF m ->
  exists fuel, forall (V : Type) op_out body_arg init_val,
    (forall args, exists vs, eval_graph V m op_out body_arg init_val fuel [] 0 args = Ok vs) /\
    (forall f args, In f (om_functions m) ->
       exists vs, eval_function V m op_out body_arg init_val fuel f args = Ok vs).
Proof. exact WF_eval_never_fails. Qed.
Print Assumptions C03_WF_eval_never_fails.

Theorem C03_wf_model_eval_never_fails : forall m, wf_model m = true ->
  forall (V : Type) op_out body_arg init_val,
    (forall args, exists vs, eval_graph V m op_out body_arg init_val (wf_fuel m) [] 0 args = Ok vs) /\
    (forall f args, In f (om_functions m) ->
       exists vs, eval_function V m op_out body_arg init_val (wf_fuel m) f args = Ok vs).
Proof. exact wf_model_eval_never_fails. Qed.
Print Assumptions C03_wf_model_eval_never_fails.

(* positional reading of the scoping judgment WFNodes (any scope: main graph, body, function body) *)
Theorem C03_wf_def_before_use : forall NodeP Sub pre n post alld forb outer loc final,
  WFNodes NodeP Sub alld forb outer loc (pre ++ n :: post) final ->
  forall i, In i (on_ins n) -> i <> "" -> In i loc \/ In i (defs pre) \/ In i outer.
Proof. exact WFNodes_def_before_use. Qed.
Print Assumptions C03_wf_def_before_use.

Theorem C03_wf_single_assignment : forall NodeP Sub ns alld forb outer loc final,
  WFNodes NodeP Sub alld forb outer loc ns final -> NoDup loc -> NoDup final.
Proof. exact WFNodes_ssa. Qed.
Print Assumptions C03_wf_single_assignment.

Theorem C03_wf_defined_names : forall NodeP Sub ns alld forb outer loc final,
  WFNodes NodeP Sub alld forb outer loc ns final -> forall x, In x final <-> In x (defs ns) \/ In x loc.
Proof. exact WFNodes_final. Qed.
Print Assumptions C03_wf_defined_names.

(* a scope redefines neither a name visible from an enclosing scope (`outer`, the onnx.checker rule) nor any name
   `forb` that the enclosing scopes define at ANY position, outputs of the owner nodes excepted (needed for
   onnxruntime, whose own topological order may run a later independent node of the parent before the owner) *)
Theorem C03_wf_no_redefinition_of_enclosing_names : forall NodeP Sub ns alld forb outer loc final,
  WFNodes NodeP Sub alld forb outer loc ns final -> forall x, In x (defs ns) -> ~ In x outer /\ ~ In x forb.
Proof. exact WFNodes_no_redefinition. Qed.
Print Assumptions C03_wf_no_redefinition_of_enclosing_names.

Theorem C03_wf_bodies_see_exactly_the_owner_scope : forall NodeP Sub pre n post alld forb outer loc final,
  WFNodes NodeP Sub alld forb outer loc (pre ++ n :: post) final ->
  forall gid, In gid (node_subgraph_ids n) ->
    exists vis fb, Sub vis fb gid /\
      (forall x, In x vis <-> In x (defs pre) \/ In x loc \/ In x outer) /\
      (forall x, In x fb <-> (In x forb \/ In x alld) /\ ~ In x (on_outs n)).
Proof. exact WFNodes_bodies. Qed.
Print Assumptions C03_wf_bodies_see_exactly_the_owner_scope.

(* every node of a WF scope satisfies the import / function-call rules NodeOK *)
Theorem C03_wf_every_node_ok : forall NodeP Sub ns alld forb outer loc final,
  WFNodes NodeP Sub alld forb outer loc ns final -> forall n, In n ns -> NodeP n.
Proof. exact WFNodes_nodeP. Qed.
Print Assumptions C03_wf_every_node_ok.

(* non-vacuity: a model with a nested body, a function call inside a body and a function is accepted;
   redefinition of a visible name, use of a later value, wrong call arity, a function body reading a
   main-graph value and a missing domain import are rejected *)
Theorem C03_validator_accepts_example :
  wf_model ex_model = true /\ table_ok ex_model = true /\ wf_first_bad ex_model = None.
Proof. exact ex_model_wf. Qed.
Print Assumptions C03_validator_accepts_example.

Theorem C03_validator_position_independent_example :
  wf_model (with_later "late") = false /\ wf_model (with_later "y") = true /\ wf_model (with_later "t") = true /\
  wf_first_bad (with_later "late") = Some "redefines-enclosing-scope-name|late@Abs(a)".
Proof. exact ex_position_independent. Qed.
Print Assumptions C03_validator_position_independent_example.

Theorem C03_validator_rejects_examples :
  wf_model (with_then [mkON "Abs" "" "a" ["x"] ["p"] []; mkON "Abs" "" "b" ["p"] ["t"] []]) = false /\
  wf_model (with_then [mkON "Abs" "" "a" ["y"] ["t"] []]) = false /\
  wf_model (with_then [mkON "F" "custom.F.1" "a" ["x"; "x"] ["t"] []]) = false /\
  wf_model (mkOM 10 [("", 21%Z); ("custom.F.1", 1%Z)] [ex_main; ex_then; ex_else]
              [mkOF "F" "custom.F.1" ["a"] ["b"] [mkON "Neg" "" "" ["x"] ["b"] []] [("", 21%Z)] []]) = false /\
  wf_model (mkOM 10 [("", 21%Z)] [ex_main; ex_then; ex_else] [ex_fun]) = false.
Proof. exact ex_rejects. Qed.
Print Assumptions C03_validator_rejects_examples.

(* ================================================================== (P) the naming discipline *)
(* FULL-STRENGTH statement "two calls on one counter family never return the same string" is FALSE of
   IRContext.fresh_name: the separator is dropped for bases ending in "_" (or "/") *)
Theorem C03_fresh_name_injective_refuted :
  exists b1 b2 n, b1 <> b2 /\ fst (ctx_run [] [b1; b2]) = [n; n].
Proof. exact ctx_fresh_name_injective_refuted. Qed.
Print Assumptions C03_fresh_name_injective_refuted.

(* ... and IRContext._name_counters / IRBuilder._counters are independent families *)
Theorem C03_two_counter_families_collide_refuted :
  exists b, fst (ctx_fresh [] b) = fst (bld_fresh [] b).
Proof. exact two_families_collide_refuted. Qed.
Print Assumptions C03_two_counter_families_collide_refuted.

(* the string builders are injective exactly up to the clash  b1 = b2 ++ "_" with b2 not ending in "_" or "/" *)
Theorem C03_ctx_string_injective_up_to_clash : forall b1 i1 b2 i2,
  ctx_fresh_string b1 i1 = ctx_fresh_string b2 i2 -> i1 = i2 /\ (b1 = b2 \/ clash b1 b2 \/ clash b2 b1).
Proof. exact ctx_string_inj. Qed.
Print Assumptions C03_ctx_string_injective_up_to_clash.

Theorem C03_ctx_clash_is_exact : forall b1 b2, clash b1 b2 -> forall i, ctx_fresh_string b1 i = ctx_fresh_string b2 i.
Proof. exact ctx_clash_collides. Qed.
Print Assumptions C03_ctx_clash_is_exact.

(* under the exact side condition, from any counter state, any sequence of calls returns pairwise distinct names *)
Theorem C03_ctx_fresh_name_injective_partial : forall bs c, no_clash bs -> NoDup (fst (ctx_run c bs)).
Proof. exact ctx_fresh_name_injective. Qed.
Print Assumptions C03_ctx_fresh_name_injective_partial.

(* IRBuilder.fresh_name needs no side condition *)
Theorem C03_builder_fresh_name_injective : forall bs c, NoDup (fst (bld_run c bs)).
Proof. exact bld_fresh_name_injective. Qed.
Print Assumptions C03_builder_fresh_name_injective.

(* both families of one context together *)
Theorem C03_fresh_name_injective_partial : forall cbs bbs cc cb,
  no_clash cbs -> cross_ok cbs bbs -> NoDup (fst (ctx_run cc cbs) ++ fst (bld_run cb bbs)).
Proof. exact fresh_name_injective. Qed.
Print Assumptions C03_fresh_name_injective_partial.

(* nested body contexts: FULL-STRENGTH disjointness is false for bases containing "/" ... *)
Theorem C03_child_scope_disjoint_refuted :
  exists b1 b2 p, scoped_ctx_name [] b1 0 = scoped_ctx_name [(p, 0)] b2 0.
Proof. exact child_scope_disjoint_refuted. Qed.
Print Assumptions C03_child_scope_disjoint_refuted.

(* ... and holds, for every nesting depth, for "/"-free clash-free bases: names are injective in
   (scope path, base, counter); so a body's names are disjoint from the parent's, the siblings', everyone's *)
Theorem C03_scoped_name_injective : forall bases,
  (forall b, In b bases -> slash_free b) -> no_clash bases ->
  forall path1 path2 b1 b2 i1 i2,
    incl (b1 :: path_bases path1) bases -> incl (b2 :: path_bases path2) bases ->
    scoped_ctx_name path1 b1 i1 = scoped_ctx_name path2 b2 i2 ->
    path1 = path2 /\ b1 = b2 /\ i1 = i2.
Proof. exact scoped_name_injective. Qed.
Print Assumptions C03_scoped_name_injective.

Theorem C03_child_scope_disjoint_partial : forall bases,
  (forall b, In b bases -> slash_free b) -> no_clash bases ->
  forall path1 path2 b1 b2 i1 i2,
    incl (b1 :: path_bases path1) bases -> incl (b2 :: path_bases path2) bases ->
    path1 <> path2 -> scoped_ctx_name path1 b1 i1 <> scoped_ctx_name path2 b2 i2.
Proof. exact child_scope_disjoint. Qed.
Print Assumptions C03_child_scope_disjoint_partial.

Theorem C03_child_vs_parent_disjoint_partial : forall bases,
  (forall b, In b bases -> slash_free b) -> no_clash bases ->
  forall path p k b1 b2 i1 i2,
    incl (b1 :: p :: path_bases path) bases -> incl (b2 :: path_bases path) bases ->
    scoped_ctx_name ((p, k) :: path) b1 i1 <> scoped_ctx_name path b2 i2.
Proof. exact child_vs_parent. Qed.
Print Assumptions C03_child_vs_parent_disjoint_partial.

Theorem C03_sibling_scopes_disjoint_partial : forall bases,
  (forall b, In b bases -> slash_free b) -> no_clash bases ->
  forall path p1 k1 p2 k2 b1 b2 i1 i2,
    incl (b1 :: p1 :: path_bases path) bases -> incl (b2 :: p2 :: path_bases path) bases ->
    (p1, k1) <> (p2, k2) ->
    scoped_ctx_name ((p1, k1) :: path) b1 i1 <> scoped_ctx_name ((p2, k2) :: path) b2 i2.
Proof. exact sibling_scopes_disjoint. Qed.
Print Assumptions C03_sibling_scopes_disjoint_partial.

Theorem C03_scoped_builder_name_injective : forall bases,
  (forall b, In b bases -> slash_free b) -> no_clash bases ->
  forall path1 path2 b1 b2 i1 i2,
    incl (b1 :: path_bases path1) bases -> incl (b2 :: path_bases path2) bases ->
    scoped_bld_name path1 b1 i1 = scoped_bld_name path2 b2 i2 ->
    path1 = path2 /\ b1 = b2 /\ i1 = i2.
Proof. exact scoped_bld_name_injective. Qed.
Print Assumptions C03_scoped_builder_name_injective.

(* the computable side conditions the harness evaluates on the literal bases of /repo imply the hypotheses above *)
Theorem C03_side_conditions_sound : forall cbs bbs,
  (no_clashb cbs = true -> no_clash cbs) /\
  (slash_freeb cbs = true -> forall b, In b cbs -> slash_free b) /\
  (cross_okb cbs bbs = true -> cross_ok cbs bbs).
Proof. intros cbs bbs. exact (conj (no_clashb_sound cbs) (conj (slash_freeb_sound cbs) (cross_okb_sound cbs bbs))). Qed.
Print Assumptions C03_side_conditions_sound.

Theorem C03_side_conditions_satisfiable :
  (no_clashb ["Constant"; "v"; "fori_body"; "loop_iter"; "a_"; "a__"] = true) /\
  (slash_freeb ["Constant"; "v"; "fori_body"] = true) /\ (cross_okb ["v"; "in0"] ["Constant"; "Not"] = true).
Proof. exact side_conditions_satisfiable. Qed.
Print Assumptions C03_side_conditions_satisfiable.

(* ================================================================== call sites vs definitions: element types *)
(* the validator run on every export also implies: all call sites of one model function pass the same known
   element type at each argument position (the AST has no FunctionProto.value_info, so this is the statically
   checkable form of "argument types agree with the definition": a definition built for one type and bound to a
   call with another is rejected whenever the export contains the call it was built for) *)
Theorem C03_wf_model_typed_sound : forall m, wf_model_typed m = true -> WF m /\ CallTypesAgree m.
Proof. exact wf_model_typed_sound. Qed.
Print Assumptions C03_wf_model_typed_sound.

Theorem C03_call_types_example :
  wf_model_typed (ex_calls "custom.F.1" 3) = false /\ wf_model (ex_calls "custom.F.1" 3) = true /\
  wf_model_typed (ex_calls "custom.F.2" 3) = true /\ wf_model_typed (ex_calls "custom.F.1" 6) = true /\
  wf_first_bad_typed (ex_calls "custom.F.1" 3) = Some "call-argument-types-differ|custom.F.1::F".
Proof. exact ex_call_types. Qed.
Print Assumptions C03_call_types_example.
