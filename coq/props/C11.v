(* C11 — the requested opset is honoured.
   Only statements here; definitions and proofs live in theories/Opset.v over
   gen/GenSchemas.v (operator schemas dumped from the INSTALLED onnx.defs on this run) and
   gen/GenOpsetUtils.v (translated from /repo's working tree on this run).
   harness/c11.py evaluates opset_ok / all_problems on the real exports at every opset 21..newest. *)
From Coq Require Import ZArith String List Bool.
From J2O Require Import Onnx Opset.
From J2OGen Require Import GenSchemas GenOpsetUtils.
Import ListNotations.
Local Open Scope string_scope.
Local Open Scope Z_scope.

(* (V) soundness of the validator, graphs: every node of every graph of the table (main graph and all
   nested bodies) has its domain imported; a call of a model-local function fits the function's signature;
   a standard-domain node has an operator version sv with since <= declared opset, no other version
   <= declared is newer, sv is not deprecated, arity within sv's range, attributes among sv's. *)
Theorem C11_opset_ok_sound : forall m, opset_ok m = true ->
  forall g n, In g (om_graphs m) -> In n (og_nodes g) ->
  exists declared, In (on_domain n, declared) (om_opsets m) /\ opset_of (om_opsets m) (on_domain n) = Some declared /\
   ((exists f, (In f (om_functions m) /\ of_domain f = on_domain n /\ of_name f = on_op n) /\
               0 <= n_ins n <= Z.of_nat (length (of_inputs f)) /\ 0 <= n_outs n <= Z.of_nat (length (of_outputs f)) /\
               forall a, In a (attr_names n) -> In a (of_attr_names f))
    \/
    ((forall f, ~ (In f (om_functions m) /\ of_domain f = on_domain n /\ of_name f = on_op n)) /\
     forall tbl, domain_table (on_domain n) = Some tbl ->
       exists vs sv, In (on_op n, vs) tbl /\
         (In sv vs /\ sv_since sv <= declared /\
          forall sv', In sv' vs -> sv_since sv' <= declared -> sv_since sv' <= sv_since sv) /\
         sv_deprecated sv = false /\
         (sv_min_in sv <= n_ins n <= sv_max_in sv /\ sv_min_out sv <= n_outs n <= sv_max_out sv /\
          forall a, In a (attr_names n) -> In a (sv_attrs sv)))).
Proof. exact opset_ok_sound. Qed.
Print Assumptions C11_opset_ok_sound.

(* (V) the same for function bodies, against the function's OWN opset imports *)
Theorem C11_opset_ok_sound_functions : forall m, opset_ok m = true ->
  forall f n, In f (om_functions m) -> In n (of_nodes f) -> node_conforms_in (om_functions m) (of_opsets f) n.
Proof. exact opset_ok_sound_functions. Qed.
Print Assumptions C11_opset_ok_sound_functions.

(* (V) ... and a function never declares another version of an ONNX-defined domain ("", "ai.onnx", "ai.onnx.ml") than the model *)
Theorem C11_function_imports_agree : forall m, opset_ok m = true ->
  forall f d v, In f (om_functions m) -> In (d, v) (of_opsets f) -> domain_table d <> None ->
  opset_of (om_opsets m) d = Some v.
Proof. exact opset_ok_function_imports. Qed.
Print Assumptions C11_function_imports_agree.

(* (V) element types: for every node input whose element type is known in its graph (graph inputs, initializers,
   value_info, outputs of Constant/Cast), the type is among those the schema version SELECTED BY THE DECLARED OPSET
   allows for that formal input (a variadic last formal covers the remaining actuals); masks the dump cannot express
   as tensor element types are negative and not checked. *)
Theorem C11_opset_ok_types_sound : forall m, opset_ok m = true ->
  (forall g n, In g (om_graphs m) -> In n (og_nodes g) ->
     forall sv i name dt mask, selected_schema (om_functions m) (om_opsets m) n = Some sv ->
       nth_error (on_ins n) i = Some name -> lookup (known_types g) name = Some dt -> formal_mask sv i = Some mask ->
       mask < 0 \/ dt < 0 \/ Z.testbit mask dt = true) /\
  (forall f n, In f (om_functions m) -> In n (of_nodes f) ->
     forall sv i name dt mask, selected_schema (om_functions m) (of_opsets f) n = Some sv ->
       nth_error (on_ins n) i = Some name -> lookup (fun_known_types f) name = Some dt -> formal_mask sv i = Some mask ->
       mask < 0 \/ dt < 0 \/ Z.testbit mask dt = true).
Proof. exact opset_ok_types_sound. Qed.
Print Assumptions C11_opset_ok_types_sound.

(* selected_schema is the version the declarative statement talks about *)
Theorem C11_selected_schema_spec : forall funs imports n sv, selected_schema funs imports n = Some sv ->
  exists declared tbl vs, opset_of imports (on_domain n) = Some declared /\ (forall f, ~ calls_function funs n f) /\
    domain_table (on_domain n) = Some tbl /\ In (on_op n, vs) tbl /\ is_version_at vs declared sv.
Proof. exact selected_schema_spec. Qed.
Print Assumptions C11_selected_schema_spec.

(* (V) every body reachable from the main graph through graph attributes is in the table and conforms *)
Theorem C11_opset_ok_nested : forall m, opset_ok m = true -> om_graphs m <> [] ->
  forall i, reachable m i -> exists g, graph_by_id m i = Some g /\ forall n, In n (og_nodes g) -> node_conforms m n.
Proof. exact opset_ok_nested. Qed.
Print Assumptions C11_opset_ok_nested.

(* (V) spelled out for a standard-domain node, with the concrete dumped table *)
Theorem C11_standard_node : forall m, opset_ok m = true ->
  forall g n, In g (om_graphs m) -> In n (og_nodes g) -> on_domain n = "" ->
  (forall f, ~ calls_function (om_functions m) n f) ->
  exists declared vs sv, declared_opset m = Some declared /\ In (on_op n, vs) schemas /\
    In sv vs /\ sv_since sv <= declared /\
    (forall sv', In sv' vs -> sv_since sv' <= declared -> sv_since sv' <= sv_since sv) /\
    sv_deprecated sv = false /\
    sv_min_in sv <= n_ins n <= sv_max_in sv /\ sv_min_out sv <= n_outs n <= sv_max_out sv /\
    (forall a, In a (attr_names n) -> In a (sv_attrs sv)).
Proof. exact opset_ok_standard_node. Qed.
Print Assumptions C11_standard_node.

(* schema_at is "the operator as of that opset": sound and complete w.r.t. the declarative selection *)
Theorem C11_version_at_spec : forall vs opset sv, version_at vs opset = Some sv ->
  In sv vs /\ sv_since sv <= opset /\ forall sv', In sv' vs -> sv_since sv' <= opset -> sv_since sv' <= sv_since sv.
Proof. exact version_at_spec. Qed.
Print Assumptions C11_version_at_spec.

Theorem C11_version_at_none : forall vs opset, version_at vs opset = None -> forall sv, In sv vs -> opset < sv_since sv.
Proof. exact version_at_None. Qed.
Print Assumptions C11_version_at_none.

(* the dumped table has one row per operator: "In (op, vs) schemas" determines vs *)
Theorem C11_schemas_functional : forall op vs1 vs2, In (op, vs1) schemas -> In (op, vs2) schemas -> vs1 = vs2.
Proof. exact schemas_functional. Qed.
Print Assumptions C11_schemas_functional.

(* (P, finite) the finite checks themselves, by computation over the table translated from /repo on this run and
   the schemas dumped from the installed onnx on this run *)
Theorem C11_reduce_table_ok : reduce_table_ok = true.
Proof. vm_compute. reflexivity. Qed.
Print Assumptions C11_reduce_table_ok.

Theorem C11_swish_sound_table_ok : swish_sound_table_ok = true.
Proof. vm_compute. reflexivity. Qed.
Print Assumptions C11_swish_sound_table_ok.

Theorem C11_swish_table_ok : swish_table_ok = true.
Proof. vm_compute. reflexivity. Qed.
Print Assumptions C11_swish_table_ok.

(* (P, finite) builder_reduce_with_axes: for EVERY opset in [13, newest] and every reduction of
   _REDUCTION_AXES_INPUT_SINCE, the translated branch passes the axes as an input exactly when the schema at
   that opset has the axes input (and as an attribute exactly when the schema has the attribute), and the node
   it emits (arity + attribute names) is accepted by that schema. *)
Theorem C11_reduce_form_correct : forall opset op since,
  13 <= opset <= onnx_newest_opset -> In (op, since) REDUCTION_AXES_INPUT_SINCE ->
  exists sv, schema_at op opset = Some sv /\ sv_deprecated sv = false /\
    (since <= opset <-> sv_max_in sv = 2 /\ ~ In "axes" (sv_attrs sv)) /\
    (opset < since <-> sv_max_in sv = 1 /\ In "axes" (sv_attrs sv)) /\
    (let form := (if reduce_uses_axes_attribute opset since then reduce_form_attribute else reduce_form_input) in
     sv_min_in sv <= fst form <= sv_max_in sv /\ forall a, In a (snd form) -> In a (sv_attrs sv)) /\
    (sv_min_in sv <= fst reduce_form_no_axes <= sv_max_in sv /\ forall a, In a (snd reduce_form_no_axes) -> In a (sv_attrs sv)).
Proof. exact (reduce_form_correct C11_reduce_table_ok). Qed.
Print Assumptions C11_reduce_form_correct.

(* (P, finite) the Swish rewrite: whenever the translated guard lets it run, Swish exists at the declared opset *)
Theorem C11_swish_guard_sound : forall v, 1 <= v <= onnx_newest_opset ->
  swish_rewrite_enabled v = true ->
  exists sv, schema_at "Swish" v = Some sv /\ sv_deprecated sv = false /\ sv_min_in sv <= 1 <= sv_max_in sv.
Proof. exact (swish_guard_sound C11_swish_sound_table_ok). Qed.
Print Assumptions C11_swish_guard_sound.

(* ... and the guard is exact: Swish exists at opset v iff threshold-of-the-guard <= v *)
Theorem C11_swish_guard_correct : forall v, 1 <= v <= onnx_newest_opset ->
  (schema_at "Swish" v <> None <-> swish_guard_constant <= v).
Proof. exact (swish_guard_correct C11_swish_table_ok). Qed.
Print Assumptions C11_swish_guard_correct.

(* non-vacuity: both branches of the reduction helper occur inside the quantified range, both sides of the guard *)
Example C11_ex_reduce_both_branches :
  reduce_form 18 17 = reduce_form_attribute /\ reduce_form 18 18 = reduce_form_input /\
  In ("ReduceMax", 18) REDUCTION_AXES_INPUT_SINCE /\ In ("ReduceSum", 13) REDUCTION_AXES_INPUT_SINCE.
Proof. vm_compute. repeat split; auto 20. Qed.
Example C11_ex_swish_both_sides : swish_rewrite_enabled 23 = false /\ swish_rewrite_enabled 24 = true.
Proof. split; reflexivity. Qed.

(* the property is FALSE of the unchanged exporter at the default opset: the two operators the plugins
   lax/jnp cumprod and lax.bitcast_convert_type emit do not exist before opset 26 (see harness: real exports) *)
Theorem C11_cumprod_bitcast_absent_before_26 :
  forall v, 1 <= v <= 25 -> schema_at "CumProd" v = None /\ schema_at "BitCast" v = None.
Proof. exact cumprod_bitcast_absent_before_26. Qed.
Print Assumptions C11_cumprod_bitcast_absent_before_26.
