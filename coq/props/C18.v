(* C18 — the bundled validation helper jax2onnx.allclose is a sound oracle.
   Only statements here; the model and the proofs live in theories/Allclose.v.
   [compare] is the faithful model of _run_allclose as the code is now (with the
   `got.astype(expected.dtype)` narrowing cast), [compare_fixed] the model of the repaired code
   (.scratch/c18/fix.diff).  harness/c18.py ties whichever of the two the running code implements. *)
From Coq Require Import ZArith QArith Reals Qreals List Bool.
From J2O Require Import PyLib Dtype Allclose OrtFeed OrtCoerce.
Import ListNotations.

(* THE PROPERTY, at full strength, for the repaired comparison: a "match" verdict implies equal output
   count and, per output (after the requested NCHW back-transpose / complex re-packing, which change
   no value): equal shape, equal dtype kind, every element within tolerance (floats; NaN~NaN,
   inf~same inf) or exactly equal (integers, booleans). *)
Theorem C18_allclose_sound_fixed :
  forall rtol atol nchw expected got, (0 <= rtol)%Q -> (0 <= atol)%Q ->
    compare_fixed rtol atol nchw expected got = true ->
    length expected = length got /\
    Forall2 (fun e g => o_shape e = o_shape g /\ o_kind e = o_kind g /\
                        Forall2 (within rtol atol) (o_vals e) (o_vals g))
            expected (normalize nchw expected got).
Proof. exact allclose_sound_fixed. Qed.
Print Assumptions C18_allclose_sound_fixed.

(* ... and every difference in count, shape, kind or value beyond tolerance is reported *)
Theorem C18_fixed_reports_every_mismatch :
  forall rtol atol nchw expected got, (0 <= rtol)%Q -> (0 <= atol)%Q ->
    ~ (length expected = length got /\
       Forall2 (output_ok rtol atol) expected (normalize nchw expected got)) ->
    compare_fixed rtol atol nchw expected got = false.
Proof. exact fixed_reports_every_mismatch. Qed.
Print Assumptions C18_fixed_reports_every_mismatch.

(* The same statement is FALSE of the code as it is now: fn returns int32 [1,1,1], the stored model
   returns float32 [1.5,1.5,1.5], default tolerances -> "match". *)
Theorem C18_allclose_sound_refuted :
  exists rtol atol nchw expected got, (0 <= rtol)%Q /\ (0 <= atol)%Q /\
    compare rtol atol nchw expected got = true /\
    ~ (length expected = length got /\
       Forall2 (output_ok rtol atol) expected (normalize nchw expected got)).
Proof. exact allclose_sound_refuted. Qed.
Print Assumptions C18_allclose_sound_refuted.

(* second, independent cause: equal kinds, int32 5 against int64 2^32+5 (wrap-around of the cast) *)
Theorem C18_allclose_sound_refuted_int_wrap :
  exists rtol atol nchw expected got, (0 <= rtol)%Q /\ (0 <= atol)%Q /\
    compare rtol atol nchw expected got = true /\
    Forall2 (fun e g => o_kind e = o_kind g) expected (normalize nchw expected got) /\
    ~ Forall2 (output_ok rtol atol) expected (normalize nchw expected got).
Proof. exact allclose_sound_refuted_int_wrap. Qed.
Print Assumptions C18_allclose_sound_refuted_int_wrap.

(* the repaired comparison rejects both witnesses *)
Theorem C18_fixed_rejects_witnesses :
  compare_fixed default_rtol default_atol [] w1_expected w1_got = false /\
  compare_fixed default_rtol default_atol [] w2_expected w2_got = false.
Proof. exact (conj w1_rejected_fixed w2_rejected_fixed). Qed.
Print Assumptions C18_fixed_rejects_witnesses.

(* What does hold of the code as it is now: soundness under the exact extra hypothesis that, per
   output, the dtype kinds agree and the cast to the expected dtype changes no ORT value. *)
Theorem C18_allclose_sound_partial :
  forall rtol atol nchw expected got, (0 <= rtol)%Q -> (0 <= atol)%Q ->
    Forall2 (fun e g' => cast_harmless e g' /\ (o_kind e = KFloating -> floats_only e /\ floats_only g'))
            expected (normalize nchw expected got) ->
    compare rtol atol nchw expected got = true ->
    length expected = length got /\ Forall2 (output_ok rtol atol) expected (normalize nchw expected got).
Proof. exact allclose_sound_partial. Qed.
Print Assumptions C18_allclose_sound_partial.

(* the hypothesis holds when the dtypes are equal ... *)
Theorem C18_harmless_same_dtype :
  forall e g', o_dtype g' = o_dtype e -> cast_harmless e g'.
Proof. exact harmless_same_dtype. Qed.
Print Assumptions C18_harmless_same_dtype.

(* ... and for an integer ORT output whose values fit the integer type fn returned (int64 from ONNX
   against the int32 JAX yields with x64 disabled) *)
Theorem C18_harmless_int_fits :
  forall e g' sb, int_info (o_dtype e) = Some sb -> (0 < snd sb)%Z -> o_kind g' = KInteger ->
    Forall (fun v => exists z, v = XInt z /\ in_int sb z) (o_vals g') -> cast_harmless e g'.
Proof. exact harmless_int_fits. Qed.
Print Assumptions C18_harmless_int_fits.

(* for complex elements [within] is stated on squared moduli; it implies the inequality on moduli *)
Theorem C18_complex_within_is_modulus_test :
  forall rtol atol D G : Q, (0 <= rtol)%Q -> (0 <= atol)%Q -> (0 <= G)%Q ->
    cmod_within rtol atol D G ->
    (sqrt (Q2R D) <= Q2R atol + Q2R rtol * sqrt (Q2R G))%R.
Proof. exact cmod_within_modulus. Qed.
Print Assumptions C18_complex_within_is_modulus_test.

(* the JAX precision flag: restored for every prior value, every requested value, every behaviour of
   the body (any flag value left behind) and both exits (normal / exception) *)
Theorem C18_x64_flag_restored :
  forall enabled prev (body : bool -> bool * exit_kind),
    fst (temporary_x64 enabled prev body) = prev.
Proof. exact x64_flag_restored. Qed.
Print Assumptions C18_x64_flag_restored.

Theorem C18_x64_body_sees_requested :
  forall enabled prev (body : bool -> bool * exit_kind),
    exists a, body enabled = (a, snd (temporary_x64 enabled prev body)).
Proof. exact x64_body_sees_requested. Qed.
Print Assumptions C18_x64_body_sees_requested.

(* ---- feed construction (user_interface._build_ort_inputs; model theories/OrtFeed.v [route]):
   which caller value reaches which input of the stored model.  A "match" verdict is only meaningful if
   the model was run on the SAME arguments as fn. *)

(* one feed entry per model input, in model order *)
Theorem C18_feed_one_entry_per_model_input :
  forall (V : Type) names (xs : list V) ps f,
    route V names xs ps = inl f -> map fst f = names.
Proof. exact route_names. Qed.
Print Assumptions C18_feed_one_entry_per_model_input.

(* every positional argument is fed exactly once, in order, to the inputs no keyword parameter binds *)
Theorem C18_feed_positional_in_order :
  forall (V : Type) names (xs : list V) ps f,
    route V names xs ps = inl f ->
    map snd (filter (fun e => negb (is_param V ps (fst e))) f) = xs.
Proof. exact route_positional. Qed.
Print Assumptions C18_feed_positional_in_order.

(* an input bound by a keyword parameter receives that parameter, never a positional value *)
Theorem C18_feed_param_value :
  forall (V : Type) names (xs : list V) ps f,
    route V names xs ps = inl f ->
    forall n v, In (n, v) f -> NoDup names -> forall p, lookup V n ps = Some p -> v = p.
Proof. exact route_param_value. Qed.
Print Assumptions C18_feed_param_value.

(* the call goes through exactly when the positional arguments fill the unbound inputs; otherwise it
   raises (never runs the model on a shifted or truncated argument list) *)
Theorem C18_feed_succeeds_iff_counts_agree :
  forall (V : Type) names (xs : list V) ps,
    (exists f, route V names xs ps = inl f) <->
    List.length xs = List.length (positional_slots V names ps).
Proof. exact route_succeeds_iff. Qed.
Print Assumptions C18_feed_succeeds_iff_counts_agree.

Theorem C18_feed_too_few_raises :
  forall (V : Type) names (xs : list V) ps,
    (List.length xs < List.length (positional_slots V names ps))%nat ->
    route V names xs ps =
    inr (NotEnough (nth (List.length xs) (positional_slots V names ps) String.EmptyString)).
Proof. exact route_too_few. Qed.
Print Assumptions C18_feed_too_few_raises.

Theorem C18_feed_too_many_raises :
  forall (V : Type) names (xs : list V) ps,
    (List.length (positional_slots V names ps) < List.length xs)%nat ->
    route V names xs ps = inr TooMany.
Proof. exact route_too_many. Qed.
Print Assumptions C18_feed_too_many_raises.

(* the common call (no keyword parameters): argument i is fed to model input i *)
Theorem C18_feed_no_params_is_zip :
  forall (V : Type) names (xs : list V),
    List.length xs = List.length names -> route V names xs [] = inl (combine names xs).
Proof. exact route_no_params. Qed.
Print Assumptions C18_feed_no_params_is_zip.

(* ---- per-value coercion of the feed (user_interface._to_numpy_input; model theories/OrtCoerce.v [coerce]) *)

(* whenever the stored model declares an element type of the table, the value is fed with exactly that dtype, or the
   call raises: the model is never run on a value of another type than it declares *)
Theorem C18_coerce_feeds_declared_type : forall arr ndim ty shape t o,
  target_of ty = Some t -> coerce arr ndim ty shape = o ->
  fed_dtype arr o = Some t \/ o = ErrTrailing \/ o = ErrNoPack.
Proof. exact coerce_feeds_declared. Qed.
Print Assumptions C18_coerce_feeds_declared_type.

(* a complex argument headed for a real-typed model input is never narrowed silently (imaginary part dropped): it is
   packed as a trailing pair of reals, or the call raises *)
Theorem C18_coerce_complex_never_cast : forall arr ndim ty shape t,
  is_complex arr = true -> target_of ty = Some t -> is_floating t = true ->
  match coerce arr ndim ty shape with PackTo t' => t' = t | ErrTrailing | ErrNoPack => True | _ => False end.
Proof. exact coerce_complex_never_cast. Qed.
Print Assumptions C18_coerce_complex_never_cast.

Theorem C18_coerce_pack_only_with_room : forall arr ndim ty shape t,
  coerce arr ndim ty shape = PackTo t ->
  is_complex arr = true /\ exists sh, shape = Some sh /\ List.length sh = (ndim + 1)%nat /\
    (last sh DSym = DInt 2 \/ last sh DSym = DSym).
Proof. exact coerce_pack_only_with_room. Qed.
Print Assumptions C18_coerce_pack_only_with_room.

(* a value that already has the declared dtype, or whose input declares nothing in the table, is fed untouched *)
Theorem C18_coerce_keep_same : forall arr ndim ty shape,
  is_complex arr = false -> target_of ty = Some arr -> coerce arr ndim ty shape = Keep.
Proof. exact coerce_keep_same. Qed.
Print Assumptions C18_coerce_keep_same.

Theorem C18_coerce_keep_unknown : forall arr ndim ty shape,
  target_of ty = None -> coerce arr ndim ty shape = Keep.
Proof. exact coerce_keep_unknown. Qed.
Print Assumptions C18_coerce_keep_unknown.
