(* C15 — all return and file modes deliver the same model.
   Only statements here; model and proofs live in theories/FileModes.v.
   `ListOps`: bytes = list N.  `RleOps`: the run-length byte strings the harness evaluates.
   v : variant = ASSUMED writer behaviour (append/truncate, CWD-relative existence check reached or not) + whether
   the code removes an old sidecar before writing.  Named variants: `unrepaired` (before /repo 1d7bd45),
   `repaired` (1d7bd45: removal first, writer's CWD check still reached), `current` (since e203da0: removal first,
   CWD check never reached).  The harness ties the code of /repo to a variant on every run and obliges it to be
   `current`-like (v_remove_before = true, v_cwd_check = false).  thr = spill threshold; h = history of exports to
   p; `save` returns (directory afterwards, returned-without-raising).  The mode of a step is the NORMALISED
   export mode: that every accepted spelling of export_mode / return_mode reaches the save logic normalised is a
   harness tie (AST) and is exercised on the real code for every spelling. *)
From Coq Require Import NArith String List.
From J2O Require Import FileModes.
Import ListNotations.
Open Scope N_scope.

(* ---------------- headline, current code *)
(* full strength, unconditional: after ANY history of exports to one path (any mix of modes, sizes, CWDs, any
   prior directory) the file loads to the model of the LAST export, every initializer byte-identical *)
Theorem C15_load_after_save_current :
  forall (thr : N) (p : string) (f0 : fs ListOps) (h : list (step ListOps)) (s : step ListOps),
    load ListOps (st_fs ListOps (run ListOps current thr p (init ListOps f0) (h ++ [s]))) p
    = Some (st_model ListOps s).
Proof. exact load_after_save_current. Qed.
Print Assumptions C15_load_after_save_current.

Theorem C15_current_never_raises :
  forall (thr : N) (f : fs ListOps) (p : string) (s : step ListOps), snd (save ListOps current thr f p s) = true.
Proof. exact current_never_raises. Qed.
Print Assumptions C15_current_never_raises.

Theorem C15_sidecar_exact_current :
  forall (thr : N) (p : string) (f : fs ListOps) (s : step ListOps),
    snd (save ListOps current thr f p s) = true ->
    sidecar_size ListOps (fst (save ListOps current thr f p s)) p
    = expected_sidecar ListOps (st_mode ListOps s) thr (st_model ListOps s).
Proof. exact sidecar_exact_current. Qed.
Print Assumptions C15_sidecar_exact_current.
(* history independence of the current code: C15_history_independent below (needs only v_remove_before = true) *)

(* ---------------- load after save, all variants *)
(* code with the removal (1d7bd45 and later), writer's CWD check possibly still reached: for EVERY history (any mix of modes, sizes, CWDs, raising exports, any prior
   directory) whose last step is web or not issued from an unrelated directory containing a file named like
   the sidecar, the file loads to the model of the last step, every initializer byte-identical *)
Theorem C15_load_after_save :
  forall (v : variant) (thr : N) (p : string) (f0 : fs ListOps) (h : list (step ListOps)) (s : step ListOps),
    v_remove_before v = true ->
    st_mode ListOps s = Web \/ st_cwd ListOps s <> CwdClash ->
    load ListOps (st_fs ListOps (run ListOps v thr p (init ListOps f0) (h ++ [s]))) p = Some (st_model ListOps s).
Proof. exact load_after_save_repaired. Qed.
Print Assumptions C15_load_after_save.

(* for the 1d7bd45 code (`repaired`) that hypothesis is needed: the unconditional statement is false of it *)
Theorem C15_load_after_save_refuted :
  ~ (forall (thr : N) (p : string) (f0 : fs ListOps) (h : list (step ListOps)) (s : step ListOps),
       load ListOps (st_fs ListOps (run ListOps repaired thr p (init ListOps f0) (h ++ [s]))) p
       = Some (st_model ListOps s)).
Proof. exact load_after_save_refuted. Qed.
Print Assumptions C15_load_after_save_refuted.

(* every variant: true exactly when the last export returns ... *)
Theorem C15_load_after_save_partial :
  forall (v : variant) (thr : N) (p : string) (f0 : fs ListOps) (h : list (step ListOps)) (s : step ListOps),
    snd (save ListOps v thr (st_fs ListOps (run ListOps v thr p (init ListOps f0) h)) p s) = true ->
    load ListOps (st_fs ListOps (run ListOps v thr p (init ListOps f0) (h ++ [s]))) p = Some (st_model ListOps s).
Proof. exact load_after_save_partial. Qed.
Print Assumptions C15_load_after_save_partial.

(* ... and an export raises exactly in these situations, leaving the directory after the (optional) removal *)
Theorem C15_raise_effect :
  forall (v : variant) (thr : N) (f : fs ListOps) (p : string) (s : step ListOps),
    snd (save ListOps v thr f p s) = false ->
    fst (save ListOps v thr f p s) = pre ListOps v f p s /\ st_mode ListOps s = Standard /\ v_cwd_check v = true /\
    (st_cwd ListOps s = CwdClash \/
     (st_cwd ListOps s = CwdDest /\ v_remove_before v = false /\ lookup ListOps f (sidecar p) <> None)).
Proof. exact raise_effect. Qed.
Print Assumptions C15_raise_effect.

Theorem C15_load_after_save_clean :
  forall (v : variant) (thr : N) (p : string) (f0 : fs ListOps) (h : list (step ListOps)) (s : step ListOps),
    st_mode ListOps s = Web \/ st_cwd ListOps s = CwdClean ->
    load ListOps (st_fs ListOps (run ListOps v thr p (init ListOps f0) (h ++ [s]))) p = Some (st_model ListOps s).
Proof. exact load_after_save_clean. Qed.
Print Assumptions C15_load_after_save_clean.

Theorem C15_load_after_save_no_cwd_check :
  forall (v : variant) (thr : N) (p : string) (f0 : fs ListOps) (h : list (step ListOps)) (s : step ListOps),
    v_cwd_check v = false ->
    load ListOps (st_fs ListOps (run ListOps v thr p (init ListOps f0) (h ++ [s]))) p = Some (st_model ListOps s).
Proof. exact load_after_save_no_cwd_check. Qed.
Print Assumptions C15_load_after_save_no_cwd_check.

(* "a raising export leaves the directory as it was" — FALSE of the 1d7bd45 code (the removal precedes the
   writer's refusal: the previous export loses its sidecar), true for code without the removal, for which the
   file then always loads to the last export that returned *)
Theorem C15_raise_atomic_refuted :
  ~ (forall (thr : N) (f : fs ListOps) (p : string) (s : step ListOps),
       snd (save ListOps repaired thr f p s) = false -> fst (save ListOps repaired thr f p s) = f).
Proof. exact raise_atomic_refuted. Qed.
Print Assumptions C15_raise_atomic_refuted.

Theorem C15_raise_atomic_partial :
  forall (v : variant) (thr : N) (f : fs ListOps) (p : string) (s : step ListOps),
    v_remove_before v = false -> snd (save ListOps v thr f p s) = false -> fst (save ListOps v thr f p s) = f.
Proof. exact raise_atomic_partial. Qed.
Print Assumptions C15_raise_atomic_partial.

Theorem C15_load_after_history_atomic :
  forall (v : variant) (thr : N) (p : string) (f0 : fs ListOps) (h : list (step ListOps)),
    v_remove_before v = false ->
    let st := run ListOps v thr p (init ListOps f0) h in
    match st_last ListOps st with
    | Some m => load ListOps (st_fs ListOps st) p = Some m
    | None => st_fs ListOps st = f0
    end.
Proof. exact load_after_history_atomic. Qed.
Print Assumptions C15_load_after_history_atomic.

(* ---------------- web *)
(* web export after any history: no external reference, no sidecar, and the main file ALONE loads *)
Theorem C15_web_self_contained :
  forall (v : variant) (thr : N) (p : string) (f0 : fs ListOps) (h : list (step ListOps)) (s : step ListOps),
    st_mode ListOps s = Web ->
    let f' := st_fs ListOps (run ListOps v thr p (init ListOps f0) (h ++ [s])) in
    refs_of ListOps f' p = [] /\ lookup ListOps f' (sidecar p) = None /\
    exists mf, lookup ListOps f' p = Some mf /\ load ListOps [(p, mf)] p = Some (st_model ListOps s).
Proof. exact web_self_contained. Qed.
Print Assumptions C15_web_self_contained.

(* ---------------- stale sidecar *)
(* code with the removal, hence the current code: HISTORY INDEPENDENCE.  Whether an export returns, and the main file and sidecar it leaves
   (presence and contents), are those of the same export into an EMPTY directory: no byte of an earlier export
   survives, nothing stale can be referenced *)
Theorem C15_history_independent :
  forall (v : variant) (thr : N) (f : fs ListOps) (p : string) (s : step ListOps),
    v_remove_before v = true ->
    snd (save ListOps v thr f p s) = snd (save ListOps v thr [] p s) /\
    (snd (save ListOps v thr f p s) = true ->
     lookup ListOps (fst (save ListOps v thr f p s)) p = lookup ListOps (fst (save ListOps v thr [] p s)) p /\
     lookup ListOps (fst (save ListOps v thr f p s)) (sidecar p)
     = lookup ListOps (fst (save ListOps v thr [] p s)) (sidecar p)).
Proof. exact history_independent. Qed.
Print Assumptions C15_history_independent.

(* every variant: after an export that returns, every external reference names p's sidecar and lies in
   [lo, size), the region THIS export wrote *)
Theorem C15_stale_sidecar_unreferenced :
  forall (v : variant) (thr : N) (p : string) (f0 : fs ListOps) (h : list (step ListOps)) (s : step ListOps),
    let f := st_fs ListOps (run ListOps v thr p (init ListOps f0) h) in
    snd (save ListOps v thr f p s) = true ->
    let st := run ListOps v thr p (init ListOps f0) (h ++ [s]) in
    st_lo ListOps st = region_start ListOps (v_writer v) (pre ListOps v f p s) p /\
    forall loc off len, In (loc, off, len) (refs_of ListOps (st_fs ListOps st) p) ->
      loc = sidecar p /\ st_lo ListOps st <= off /\ off + len <= sidecar_size ListOps (st_fs ListOps st) p.
Proof. exact stale_sidecar_unreferenced. Qed.
Print Assumptions C15_stale_sidecar_unreferenced.

Theorem C15_append_keeps_old_bytes :
  forall (v : variant) (thr : N) (f : fs ListOps) (p : string) (s : step ListOps),
    v_writer v = WAppend -> snd (save ListOps v thr f p s) = true ->
    lookup ListOps (fst (save ListOps v thr f p s)) (sidecar p) <> None ->
    region_start ListOps (v_writer v) (pre ListOps v f p s) p
    = blen ListOps (data_of ListOps (pre ListOps v f p s) (sidecar p)) /\
    ext ListOps (data_of ListOps (pre ListOps v f p s) (sidecar p))
                (data_of ListOps (fst (save ListOps v thr f p s)) (sidecar p)).
Proof. exact append_keeps_old_bytes. Qed.
Print Assumptions C15_append_keeps_old_bytes.

(* the sidecar is exactly as large as what a fresh export writes: a theorem of the 1d7bd45 code as well ... *)
Theorem C15_sidecar_exact :
  forall (thr : N) (p : string) (f : fs ListOps) (s : step ListOps),
    snd (save ListOps repaired thr f p s) = true ->
    sidecar_size ListOps (fst (save ListOps repaired thr f p s)) p
    = expected_sidecar ListOps (st_mode ListOps s) thr (st_model ListOps s).
Proof. exact sidecar_exact_repaired. Qed.
Print Assumptions C15_sidecar_exact.

(* ... false before 1d7bd45 (append writer) ... *)
Theorem C15_sidecar_exact_refuted_unrepaired :
  ~ (forall (thr : N) (p : string) (f : fs ListOps) (s : step ListOps),
       snd (save ListOps unrepaired thr f p s) = true ->
       sidecar_size ListOps (fst (save ListOps unrepaired thr f p s)) p
       = expected_sidecar ListOps (st_mode ListOps s) thr (st_model ListOps s)).
Proof. exact sidecar_exact_refuted_unrepaired. Qed.
Print Assumptions C15_sidecar_exact_refuted_unrepaired.

(* ... and in general under exactly these conditions *)
Theorem C15_sidecar_exact_partial :
  forall (v : variant) (thr : N) (f : fs ListOps) (p : string) (s : step ListOps),
    snd (save ListOps v thr f p s) = true ->
    v_remove_before v = true \/ sidecar_size ListOps f p = 0 \/ st_mode ListOps s = Web ->
    sidecar_size ListOps (fst (save ListOps v thr f p s)) p
    = expected_sidecar ListOps (st_mode ListOps s) thr (st_model ListOps s).
Proof. exact sidecar_exact_partial. Qed.
Print Assumptions C15_sidecar_exact_partial.

(* exports to p touch nothing but p and its sidecar *)
Theorem C15_frame :
  forall (v : variant) (thr : N) (p : string) (f0 : fs ListOps) (h : list (step ListOps)) (q : string),
    q <> p -> q <> sidecar p -> lookup ListOps (st_fs ListOps (run ListOps v thr p (init ListOps f0) h)) q = lookup ListOps f0 q.
Proof. exact frame. Qed.
Print Assumptions C15_frame.

(* ---------------- byte strings: both implementations satisfy the laws; the run-length one is what the harness
   evaluates, and the headline theorems hold for it verbatim *)
Theorem C15_list_bytes_laws : BlobLaws ListOps.
Proof. exact ListLaws. Qed.
Print Assumptions C15_list_bytes_laws.

Theorem C15_rle_bytes_laws : BlobLaws RleOps.
Proof. exact RleLaws. Qed.
Print Assumptions C15_rle_bytes_laws.

Theorem C15_rle_load_after_save :
  forall (v : variant) (thr : N) (p : string) (f0 : fs RleOps) (h : list (step RleOps)) (s : step RleOps),
    v_remove_before v = true ->
    st_mode RleOps s = Web \/ st_cwd RleOps s <> CwdClash ->
    load RleOps (st_fs RleOps (run RleOps v thr p (init RleOps f0) (h ++ [s]))) p = Some (st_model RleOps s).
Proof. exact rle_load_after_save_repaired. Qed.
Print Assumptions C15_rle_load_after_save.
