(* C15 — all return and file modes deliver the same model.
   Only statements here; model and proofs live in theories/FileModes.v.
   `ListOps`: bytes = list N.  `RleOps`: the run-length byte strings the harness evaluates.
   v : onnx_variant ranges over the ASSUMED behaviours of onnx.save_model (append/truncate sidecar,
   CWD-relative existence check on/off); thr is the spill threshold; h the history of exports to p. *)
From Coq Require Import NArith String List.
From J2O Require Import FileModes.
Import ListNotations.
Open Scope N_scope.

(* after ANY history of exports to one path (standard/web, any sizes, any order, any length, raising exports
   included, any prior directory contents) the file loads to the model of the last export that did not
   raise, every initializer byte-identical *)
Theorem C15_load_after_history :
  forall (v : onnx_variant) (thr : N) (p : string) (f0 : fs ListOps) (h : list (step ListOps)),
    let st := run ListOps v thr p (init ListOps f0) h in
    match st_last ListOps st with
    | Some m => load ListOps (st_fs ListOps st) p = Some m
    | None => st_fs ListOps st = f0
    end.
Proof. exact load_after_history. Qed.
Print Assumptions C15_load_after_history.

(* full strength: "load p = model of the LAST export" — false of the unchanged code (FileExistsError when the
   export is issued from inside the output directory and a sidecar exists) *)
Theorem C15_load_after_save_refuted :
  ~ (forall (v : onnx_variant) (thr : N) (p : string) (f0 : fs ListOps) (h : list (step ListOps)) (s : step ListOps),
       load ListOps (st_fs ListOps (run ListOps v thr p (init ListOps f0) (h ++ [s]))) p
       = Some (st_model ListOps s)).
Proof. exact load_after_save_refuted. Qed.
Print Assumptions C15_load_after_save_refuted.

(* ... true exactly when the last export does not raise *)
Theorem C15_load_after_save_partial :
  forall (v : onnx_variant) (thr : N) (p : string) (f0 : fs ListOps) (h : list (step ListOps)) (s : step ListOps),
    save ListOps v thr (st_fs ListOps (run ListOps v thr p (init ListOps f0) h)) p s <> None ->
    load ListOps (st_fs ListOps (run ListOps v thr p (init ListOps f0) (h ++ [s]))) p = Some (st_model ListOps s).
Proof. exact load_after_save_partial. Qed.
Print Assumptions C15_load_after_save_partial.

(* ... in particular for web exports and for exports issued from a CWD holding no file named like the sidecar *)
Theorem C15_load_after_save_clean :
  forall (v : onnx_variant) (thr : N) (p : string) (f0 : fs ListOps) (h : list (step ListOps)) (s : step ListOps),
    st_mode ListOps s = Web \/ st_cwd ListOps s = CwdClean ->
    load ListOps (st_fs ListOps (run ListOps v thr p (init ListOps f0) (h ++ [s]))) p = Some (st_model ListOps s).
Proof. exact load_after_save_clean. Qed.
Print Assumptions C15_load_after_save_clean.

(* ... and unconditionally for a writer without the CWD-relative existence check *)
Theorem C15_load_after_save_no_cwd_check :
  forall (v : onnx_variant) (thr : N) (p : string) (f0 : fs ListOps) (h : list (step ListOps)) (s : step ListOps),
    ov_cwd_check v = false ->
    load ListOps (st_fs ListOps (run ListOps v thr p (init ListOps f0) (h ++ [s]))) p = Some (st_model ListOps s).
Proof. exact load_after_save_no_cwd_check. Qed.
Print Assumptions C15_load_after_save_no_cwd_check.

(* web export after any history: no external reference, no sidecar, and the main file ALONE loads *)
Theorem C15_web_self_contained :
  forall (v : onnx_variant) (thr : N) (p : string) (f0 : fs ListOps) (h : list (step ListOps)) (s : step ListOps),
    st_mode ListOps s = Web ->
    let f' := st_fs ListOps (run ListOps v thr p (init ListOps f0) (h ++ [s])) in
    refs_of ListOps f' p = [] /\ lookup ListOps f' (sidecar p) = None /\
    exists mf, lookup ListOps f' p = Some mf /\ load ListOps [(p, mf)] p = Some (st_model ListOps s).
Proof. exact web_self_contained. Qed.
Print Assumptions C15_web_self_contained.

(* after any history every external reference of the main file names p's sidecar and lies in [st_lo, size):
   the region written by the last export that did not raise *)
Theorem C15_stale_sidecar_unreferenced :
  forall (v : onnx_variant) (thr : N) (p : string) (f0 : fs ListOps) (h : list (step ListOps)) (m : model ListOps),
    let st := run ListOps v thr p (init ListOps f0) h in
    st_last ListOps st = Some m ->
    forall loc off len, In (loc, off, len) (refs_of ListOps (st_fs ListOps st) p) ->
      loc = sidecar p /\ st_lo ListOps st <= off /\ off + len <= sidecar_size ListOps (st_fs ListOps st) p.
Proof. exact stale_sidecar_unreferenced. Qed.
Print Assumptions C15_stale_sidecar_unreferenced.

(* with the append writer, st_lo is the old size and every old byte range reads as before: the stale bytes
   are exactly [0, st_lo) *)
Theorem C15_append_keeps_old_bytes :
  forall (v : onnx_variant) (thr : N) (f : fs ListOps) (p : string) (s : step ListOps) (f' : fs ListOps),
    ov_writer v = WAppend -> save ListOps v thr f p s = Some f' -> lookup ListOps f' (sidecar p) <> None ->
    region_start ListOps (ov_writer v) f p = blen ListOps (data_of ListOps f (sidecar p)) /\
    ext ListOps (data_of ListOps f (sidecar p)) (data_of ListOps f' (sidecar p)).
Proof. exact append_keeps_old_bytes. Qed.
Print Assumptions C15_append_keeps_old_bytes.

(* exports to p touch nothing but p and its sidecar *)
Theorem C15_frame :
  forall (v : onnx_variant) (thr : N) (p : string) (f0 : fs ListOps) (h : list (step ListOps)) (q : string),
    q <> p -> q <> sidecar p -> lookup ListOps (st_fs ListOps (run ListOps v thr p (init ListOps f0) h)) q = lookup ListOps f0 q.
Proof. exact frame. Qed.
Print Assumptions C15_frame.

(* observation (not required by C15): "the sidecar is exactly what a fresh export writes" is false ... *)
Theorem C15_sidecar_exact_refuted :
  ~ (forall (v : onnx_variant) (thr : N) (p : string) (f : fs ListOps) (s : step ListOps) (f' : fs ListOps),
       save ListOps v thr f p s = Some f' ->
       sidecar_size ListOps f' p = expected_sidecar ListOps (st_mode ListOps s) thr (st_model ListOps s)).
Proof. exact sidecar_exact_refuted. Qed.
Print Assumptions C15_sidecar_exact_refuted.

(* ... and true when no (or an empty) sidecar existed before, or for web exports *)
Theorem C15_sidecar_exact_partial :
  forall (v : onnx_variant) (thr : N) (f : fs ListOps) (p : string) (s : step ListOps) (f' : fs ListOps),
    save ListOps v thr f p s = Some f' ->
    sidecar_size ListOps f p = 0 \/ st_mode ListOps s = Web ->
    sidecar_size ListOps f' p = expected_sidecar ListOps (st_mode ListOps s) thr (st_model ListOps s).
Proof. exact sidecar_exact_partial. Qed.
Print Assumptions C15_sidecar_exact_partial.

(* the two byte-string implementations satisfy the laws the theorems rest on; the run-length one is what the
   harness evaluates, and the main theorem holds for it verbatim *)
Theorem C15_list_bytes_laws : BlobLaws ListOps.
Proof. exact ListLaws. Qed.
Print Assumptions C15_list_bytes_laws.

Theorem C15_rle_bytes_laws : BlobLaws RleOps.
Proof. exact RleLaws. Qed.
Print Assumptions C15_rle_bytes_laws.

Theorem C15_rle_load_after_history :
  forall (v : onnx_variant) (thr : N) (p : string) (f0 : fs RleOps) (h : list (step RleOps)),
    let st := run RleOps v thr p (init RleOps f0) h in
    match st_last RleOps st with
    | Some m => load RleOps (st_fs RleOps st) p = Some m
    | None => st_fs RleOps st = f0
    end.
Proof. exact rle_load_after_history. Qed.
Print Assumptions C15_rle_load_after_history.
