(* C07 — ONNX function boundaries are transparent; bodies shared only when equal.
   Only statements here; proofs live in theories/Dedup.v. *)
From Coq Require Import String List Arith Bool.
From J2O Require Import Graph Dedup.
Import ListNotations.

(* ---- (a) a call node computes what its body computes when inlined with the actuals substituted
        (any value type V, any operator semantics sem, any function f, any renaming r that maps the
        formals to the actuals and the body's own values to names fresh in the caller) *)
Theorem C07_function_transparent :
  forall (V : Type) (sem : string -> list nat -> list V -> option (list V)) (f : func) (r : name -> name)
         (acts : list name) (args : list V) (e : env V),
  wf_function f -> inline_ok V f r acts e -> lookups V e acts = Some args ->
  eval_call V sem f args = eval_body V sem f r e.
Proof. exact function_transparent. Qed.
Print Assumptions C07_function_transparent.

(* whole caller graph: splicing the body in place of the call node preserves the graph's result *)
Theorem C07_inline_call_sound :
  forall (V : Type) (sem : string -> list nat -> list V -> option (list V)) (f : func) (r : name -> name)
         (pre post : list node) (gouts : list name) (ats : list nat) (acts : list name) (e : env V) (o : list V),
  wf_function f ->
  (forall n, In n (f_body f) -> n_op n <> f_name f) ->
  (forall em, eval V (sem_with V sem f) pre e = Some em -> inline_ok V f r acts em) ->
  (forall m x, In m post -> In x (n_uses m) -> ~ In x (internal_names f r)) ->
  (forall x, In x gouts -> ~ In x (internal_names f r)) ->
  run V (sem_with V sem f) (mkGraph (pre ++ call_node f r ats acts :: post) gouts) e = Some o ->
  run V (sem_with V sem f) (mkGraph (pre ++ map (ren_node r) (f_body f) ++ post) gouts) e = Some o.
Proof. exact inline_call_sound. Qed.
Print Assumptions C07_inline_call_sound.

(* ---- (b) the registry fold: for EVERY adequate key and EVERY sequence of call sites (any order, length,
        nesting), each emitted call node names a definition that denotes the site's function *)
Theorem C07_dedup_sound :
  forall (site K D : Type) (K_eq_dec : forall a b : K, {a = b} + {a <> b}) (key : site -> K) (sem : site -> D)
         (nin nout : site -> nat) (fam : site -> nat * bool),
  key_adequate site K D key sem ->
  forall (sites : list (site * option nat)) (c : callref site K D),
    In c (st_calls site K D (lower_sites site K D K_eq_dec key sem nin nout fam sites)) ->
    d_sem K D (c_def site K D c) = sem (c_site site K D c).
Proof. exact dedup_sound. Qed.
Print Assumptions C07_dedup_sound.

Theorem C07_shared_only_if_equal :
  forall (site K D : Type) (K_eq_dec : forall a b : K, {a = b} + {a <> b}) (key : site -> K) (sem : site -> D)
         (nin nout : site -> nat) (fam : site -> nat * bool) (P : site -> Prop),
  key_adequate_on site K D key sem P ->
  forall sites, Forall (fun ps => P (fst ps)) sites ->
  forall c1 c2 : callref site K D,
    In c1 (st_calls site K D (lower_sites site K D K_eq_dec key sem nin nout fam sites)) ->
    In c2 (st_calls site K D (lower_sites site K D K_eq_dec key sem nin nout fam sites)) ->
    c_def site K D c1 = c_def site K D c2 -> sem (c_site site K D c1) = sem (c_site site K D c2).
Proof. exact shared_only_if_equal_on. Qed.
Print Assumptions C07_shared_only_if_equal.

(* the converse hazard: ANY key that identifies two sites with different denotations yields a sequence of
   sites for which a call node names a definition of a different function *)
Theorem C07_dedup_unsound_if_not_adequate :
  forall (site K D : Type) (K_eq_dec : forall a b : K, {a = b} + {a <> b}) (key : site -> K) (sem : site -> D)
         (nin nout : site -> nat) (fam : site -> nat * bool),
  (exists c1 c2, key c1 = key c2 /\ sem c1 <> sem c2) ->
  exists sites c,
    In c (st_calls site K D (lower_sites site K D K_eq_dec key sem nin nout fam sites)) /\
    d_sem K D (c_def site K D c) <> sem (c_site site K D c).
Proof. exact dedup_unsound_if_not_adequate. Qed.
Print Assumptions C07_dedup_unsound_if_not_adequate.

Theorem C07_dedup_unsound_weightless_key :
  exists sites c,
    In c (st_calls _ _ _ (lower_sites rsite nat cstate Nat.eq_dec s_qualname s_state rnin s_nout rfam sites)) /\
    d_sem _ _ (c_def _ _ _ c) <> s_state (c_site _ _ _ c).
Proof. exact dedup_unsound_weightless_key. Qed.
Print Assumptions C07_dedup_unsound_weightless_key.

(* ---- (c) arities and identifiers *)
Theorem C07_arity_matches :
  forall (site K D : Type) (K_eq_dec : forall a b : K, {a = b} + {a <> b}) (key : site -> K) (sem : site -> D)
         (nin nout : site -> nat) (fam : site -> nat * bool),
  (forall c1 c2, key c1 = key c2 -> nin c1 = nin c2) ->
  (forall c1 c2, sem c1 = sem c2 -> nout c1 = nout c2) ->
  key_adequate site K D key sem ->
  forall sites (c : callref site K D),
    In c (st_calls site K D (lower_sites site K D K_eq_dec key sem nin nout fam sites)) ->
    c_nin site K D c = d_nin K D (c_def site K D c) /\ c_nout site K D c = d_nout K D (c_def site K D c).
Proof. exact arity_matches. Qed.
Print Assumptions C07_arity_matches.

Theorem C07_def_names_unique :
  forall (site K D : Type) (K_eq_dec : forall a b : K, {a = b} + {a <> b}) (key : site -> K) (sem : site -> D)
         (nin nout : site -> nat) (fam : site -> nat * bool) sites,
  NoDup (map (d_name K D) (st_defs site K D (lower_sites site K D K_eq_dec key sem nin nout fam sites))).
Proof. exact def_names_unique. Qed.
Print Assumptions C07_def_names_unique.

Theorem C07_one_definition_per_key :
  forall (site K D : Type) (K_eq_dec : forall a b : K, {a = b} + {a <> b}) (key : site -> K) (sem : site -> D)
         (nin nout : site -> nat) (fam : site -> nat * bool) sites,
  NoDup (map (d_key K D) (st_defs site K D (lower_sites site K D K_eq_dec key sem nin nout fam sites))).
Proof. exact one_definition_per_key. Qed.
Print Assumptions C07_one_definition_per_key.

(* the real key fixes the operand count of a call node, with no assumption at all *)
Theorem C07_real_key_fixes_nin :
  forall (HT FPT : Type) (hash : list nat -> HT) (fp : nat -> FPT) (c1 c2 : rsite),
  real_key HT FPT hash fp c1 = real_key HT FPT hash fp c2 -> rnin c1 = rnin c2.
Proof. exact real_key_fixes_nin. Qed.
Print Assumptions C07_real_key_fixes_nin.

(* ---- the key as _lower_and_call builds it.  Adequacy is FALSE at full strength on the unchanged code: *)
Theorem C07_real_key_static_kwarg_refuted :
  forall (HT FPT : Type) (hash : list nat -> HT) (fp : nat -> FPT),
  exists c1 c2, real_key HT FPT hash fp c1 = real_key HT FPT hash fp c2 /\
                s_params c1 <> s_params c2 /\ s_state c1 = s_state c2 /\ s_obj c1 = s_obj c2.
Proof. exact real_key_static_kwarg_refuted. Qed.
Print Assumptions C07_real_key_static_kwarg_refuted.

Theorem C07_real_key_unique_hidden_state_refuted :
  forall (HT FPT : Type) (hash : list nat -> HT) (fp : nat -> FPT),
  exists c1 c2, s_unique c1 = true /\ real_key HT FPT hash fp c1 = real_key HT FPT hash fp c2 /\
                s_state c1 <> s_state c2 /\ s_params c1 = s_params c2.
Proof. exact real_key_unique_hidden_state_refuted. Qed.
Print Assumptions C07_real_key_unique_hidden_state_refuted.

(* ... and holds on the sites that avoid the two holes (every static keyword argument converts to an array;
   in unique mode the fingerprint exposes the whole state), modulo the four named assumptions *)
Theorem C07_real_key_adequate_partial :
  forall (HT FPT D : Type) (hash : list nat -> HT) (fp : nat -> FPT)
         (denote : nat -> nat -> cstate -> list aval -> list (nat * param) -> D) (live : rsite -> Prop),
  (forall b1 b2, hash b1 = hash b2 -> b1 = b2) ->
  (forall a b, fp a = fp b -> a = b) ->
  (forall c1 c2, live c1 -> live c2 -> s_unique c1 = false -> s_unique c2 = false ->
     s_qualname c1 = s_qualname c2 -> s_obj c1 = s_obj c2 ->
     s_state c1 = s_state c2 /\ s_inst_type c1 = s_inst_type c2) ->
  (forall c1 c2, live c1 -> live c2 -> s_unique c1 = true -> s_unique c2 = true ->
     s_is_class c1 = false -> s_is_class c2 = false ->
     s_qualname c1 = s_qualname c2 -> s_state c1 = s_state c2) ->
  key_adequate_on rsite (fkey HT FPT) D (real_key HT FPT hash fp) (rsem D denote) (clean live).
Proof. exact real_key_adequate. Qed.
Print Assumptions C07_real_key_adequate_partial.

(* end to end for the real key: every call node emitted for a sequence of clean sites names a definition
   that denotes the site's function, with matching operand and result counts *)
Theorem C07_real_dedup_sound_partial :
  forall (HT FPT D : Type) (hash : list nat -> HT) (fp : nat -> FPT)
         (HT_eq_dec : forall a b : HT, {a = b} + {a <> b}) (FPT_eq_dec : forall a b : FPT, {a = b} + {a <> b})
         (denote : nat -> nat -> cstate -> list aval -> list (nat * param) -> D) (live : rsite -> Prop),
  (forall b1 b2, hash b1 = hash b2 -> b1 = b2) ->
  (forall a b, fp a = fp b -> a = b) ->
  (forall c1 c2, live c1 -> live c2 -> s_unique c1 = false -> s_unique c2 = false ->
     s_qualname c1 = s_qualname c2 -> s_obj c1 = s_obj c2 ->
     s_state c1 = s_state c2 /\ s_inst_type c1 = s_inst_type c2) ->
  (forall c1 c2, live c1 -> live c2 -> s_unique c1 = true -> s_unique c2 = true ->
     s_is_class c1 = false -> s_is_class c2 = false ->
     s_qualname c1 = s_qualname c2 -> s_state c1 = s_state c2) ->
  (forall c1 c2, rsem D denote c1 = rsem D denote c2 -> s_nout c1 = s_nout c2) ->
  forall sites, Forall (fun ps => clean live (fst ps)) sites ->
  forall c, In c (st_calls _ _ _ (lower_sites rsite (fkey HT FPT) D (fkey_eq_dec HT FPT HT_eq_dec FPT_eq_dec)
                                    (real_key HT FPT hash fp) (rsem D denote) rnin s_nout rfam sites)) ->
    d_sem _ _ (c_def _ _ _ c) = rsem D denote (c_site _ _ _ c) /\
    c_nin _ _ _ c = d_nin _ _ (c_def _ _ _ c) /\ c_nout _ _ _ c = d_nout _ _ (c_def _ _ _ c).
Proof. exact real_dedup_sound. Qed.
Print Assumptions C07_real_dedup_sound_partial.

(* non-vacuity: the hypotheses hold for a conversion with four distinct live sites (one instance twice with
   different shapes / kwargs, a twin instance), all clean *)
Theorem C07_real_key_adequate_nonvacuous :
  key_adequate_on rsite _ _ ckey (rsem _ (fun q t s a p => (q, t, s, a, p))) (clean ex_live)
  /\ clean ex_live ex_a1 /\ clean ex_live ex_a2 /\ clean ex_live ex_a3 /\ clean ex_live ex_a4.
Proof. exact real_key_adequate_nonvacuous. Qed.
Print Assumptions C07_real_key_adequate_nonvacuous.

(* ---- histories: several conversions in one process, callees mutated in between.
        The key as the code builds it is a function of the CURRENT site, so every conversion of every
        history is sound under the per-conversion assumptions ... *)
Theorem C07_current_key_sound_along_histories :
  forall (HT FPT D : Type) (hash : list nat -> HT) (fp : nat -> FPT)
         (HT_eq_dec : forall a b : HT, {a = b} + {a <> b}) (FPT_eq_dec : forall a b : FPT, {a = b} + {a <> b})
         (denote : nat -> nat -> cstate -> list aval -> list (nat * param) -> D),
  (forall b1 b2, hash b1 = hash b2 -> b1 = b2) ->
  (forall a b, fp a = fp b -> a = b) ->
  (forall c1 c2, rsem D denote c1 = rsem D denote c2 -> s_nout c1 = s_nout c2) ->
  forall history : list (list (rsite * option nat)), Forall conversion_ok history ->
  Forall (fun sites => forall c, In c (st_calls _ _ _ (convert_current HT FPT D hash fp HT_eq_dec FPT_eq_dec denote sites)) ->
            d_sem _ _ (c_def _ _ _ c) = rsem D denote (c_site _ _ _ c) /\
            c_nin _ _ _ c = d_nin _ _ (c_def _ _ _ c) /\ c_nout _ _ _ c = d_nout _ _ (c_def _ _ _ c)) history.
Proof. exact current_key_sound_along_histories. Qed.
Print Assumptions C07_current_key_sound_along_histories.

(* ... whereas a key computed from a state remembered per instance (id(instance) -> fingerprint at first
   sight) breaks adequacy along a history although every single conversion satisfies the assumptions:
   identical instances, export, one updated in place, export: the updated instance's call node names
   the other one's definition *)
Theorem C07_stale_key_breaks_adequacy :
  exists history st c,
    Forall conversion_ok history /\
    nth_error (run_history_stale (list nat) nat _ (fun b => b) (fun s => s) (list_eq_dec Nat.eq_dec) Nat.eq_dec h_denote [] history) 1 = Some st /\
    In c (st_calls _ _ _ st) /\
    d_sem _ _ (c_def _ _ _ c) <> rsem _ h_denote (c_site _ _ _ c).
Proof. exact stale_key_breaks_adequacy. Qed.
Print Assumptions C07_stale_key_breaks_adequacy.

(* a remembered fingerprint is harmless within a single conversion from a cold cache (callees not mutated
   during it): there the cached key IS the current-state key — which is why one export alone never shows it *)
Theorem C07_stale_key_first_conversion :
  forall (HT FPT : Type) (hash : list nat -> HT) (fp : nat -> FPT) (sites : list (rsite * option nat)),
  (forall c1 c2, In c1 (map fst sites) -> In c2 (map fst sites) -> s_obj c1 = s_obj c2 -> s_state c1 = s_state c2) ->
  forall c, In c (map fst sites) ->
    stale_key HT FPT hash fp (cache_extend [] sites) c = real_key HT FPT hash fp c.
Proof. exact stale_key_first_conversion. Qed.
Print Assumptions C07_stale_key_first_conversion.

(* ---- call-site constants passed as operands: the key holds only their types, so a definition is shared
        across different constant values.  Sound iff the body is a function of the key's inputs only. *)
Theorem C07_generic_body_sound :
  forall (site K C R : Type) (K_eq_dec : forall a b : K, {a = b} + {a <> b}) (key : site -> K)
         (nin nout : site -> nat) (fam : site -> nat * bool) (cval : site -> C) (body : site -> C -> R),
  (forall c1 c2, key c1 = key c2 -> body c1 = body c2) ->
  forall sites c, In c (st_calls _ _ _ (lower_sites site K (C -> R) K_eq_dec key body nin nout fam sites)) ->
    d_sem _ _ (c_def _ _ _ c) (cval (c_site _ _ _ c)) = body (c_site _ _ _ c) (cval (c_site _ _ _ c)).
Proof. exact generic_body_sound. Qed.
Print Assumptions C07_generic_body_sound.

(* a body specialised on the defining site's constant gives the wrong result at the second site *)
Theorem C07_specialised_body_unsound :
  forall (site K C R : Type) (K_eq_dec : forall a b : K, {a = b} + {a <> b}) (key : site -> K)
         (nin nout : site -> nat) (fam : site -> nat * bool) (cval : site -> C) (body : site -> C -> R) c1 c2,
  key c1 = key c2 -> body c1 (cval c2) <> body c2 (cval c2) ->
  exists sites c, In c (st_calls _ _ _ (lower_sites site K (C -> R) K_eq_dec key body nin nout fam sites)) /\
    d_sem _ _ (c_def _ _ _ c) (cval (c_site _ _ _ c)) <> body (c_site _ _ _ c) (cval (c_site _ _ _ c)).
Proof. exact specialised_body_unsound. Qed.
Print Assumptions C07_specialised_body_unsound.

Theorem C07_real_key_ignores_operand_values :
  forall (HT FPT : Type) (hash : list nat -> HT) (fp : nat -> FPT) (c1 c2 : rsite),
  s_qualname c1 = s_qualname c2 -> s_unique c1 = s_unique c2 -> s_is_class c1 = s_is_class c2 -> s_obj c1 = s_obj c2 ->
  s_inst_type c1 = s_inst_type c2 -> s_state c1 = s_state c2 -> s_in_avals c1 = s_in_avals c2 -> s_params c1 = s_params c2 ->
  real_key HT FPT hash fp c1 = real_key HT FPT hash fp c2.
Proof. exact real_key_ignores_operand_values. Qed.
Print Assumptions C07_real_key_ignores_operand_values.
