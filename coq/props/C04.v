(* C04 — symbolic-shape exports are correct for every binding of the symbols.
   Only statements here; model and proofs live in theories/DimExpr.v.

   Objects: `expr` = JAX _DimExpr as stored (_sorted_terms / _factors / operation+operands),
   `denote rho e` = JAX's integer value of e under the binding rho (floor //, % with the divisor's sign),
   `lower cfg og e` = Gallina image of LowerDimExpr._lower_expr INCLUDING its cache keyed by printed
   forms; `dim_as_value cfg og e` = DimAsValuePlugin.lower (origin / constant / lowerer);
   `cfg_current` = the code as it stands, `cfg_fixed` = namespaced cache keys + floor-division lowering;
   `val64` evaluates the emitted int64 graph with two's-complement wrap-around. *)
From Coq Require Import ZArith List String.
From J2O Require Import DimExpr.
Import ListNotations.
Open Scope Z_scope.

(* THE PROPERTY (full strength), as a statement about a configuration of the lowering:
     forall e rho shapes og st v st',
       (forall s, 1 <= rho s) -> origins_ok og rho shapes -> cache_ok_all cfg rho shapes st ->
       defined rho e -> lower cfg og e st = Some (v, st') -> no_int64_overflow shapes st' ->
       val64 shapes st' v = denote rho e /\ cache_ok_all cfg rho shapes st' /\ ext st st'          *)

(* ---- it is FALSE of the code as it stands (two independent defects) *)
Theorem C04_lower_correct_refuted : ~ lower_correct_stmt cfg_current.
Proof. exact lower_correct_refuted. Qed.
Print Assumptions C04_lower_correct_refuted.

Theorem C04_lower_correct_refuted_floordiv : ~ lower_correct_stmt cfg_current.
Proof. exact lower_correct_refuted_floordiv. Qed.
Print Assumptions C04_lower_correct_refuted_floordiv.

(* repairing only one of the two defects leaves the property false *)
Theorem C04_keys_defect_alone : ~ lower_correct_stmt {| ns_keys := false; floor_div := true |}.
Proof. exact keys_defect_alone. Qed.
Print Assumptions C04_keys_defect_alone.

Theorem C04_floordiv_defect_alone : ~ lower_correct_stmt {| ns_keys := true; floor_div := false |}.
Proof. exact floordiv_defect_alone. Qed.
Print Assumptions C04_floordiv_defect_alone.

(* the colliding cache keys: str((b, 2)) of the factor b^2 and of the term 2*b *)
Theorem C04_key_collision :
  ckey cfg_current (CFp var_b 2) = ckey cfg_current (CTc [(var_b, 1%positive)] 2)
  /\ cdenote (fun _ => 3) (CFp var_b 2) <> cdenote (fun _ => 3) (CTc [(var_b, 1%positive)] 2).
Proof. exact key_collision_witness. Qed.
Print Assumptions C04_key_collision.

(* ---- the code as it stands is correct under exactly two extra hypotheses *)
Theorem C04_lower_correct_partial : forall e rho shapes og v st',
  (forall s, 1 <= rho s) -> origins_ok og rho shapes ->
  keys_okb (subnodes e) = true ->
  trunc_safe rho e ->
  lower cfg_current og e st0 = Some (v, st') -> no_int64_overflow shapes st' ->
  val64 shapes st' v = denote rho e.
Proof. exact lower_correct_partial. Qed.
Print Assumptions C04_lower_correct_partial.

(* general form of the same: any configuration, any initial cache, relative to a set U of cache
   nodes on which the keys are injective and which contains the sub-nodes of e *)
Theorem C04_lower_correct_gen : forall cfg e rho shapes og U st v st',
  origins_ok og rho shapes -> key_inj cfg rho U -> (forall n, In n (subnodes e) -> U n) ->
  cache_ok cfg rho shapes U st -> forallb (op_okb cfg rho) (subnodes e) = true ->
  lower cfg og e st = Some (v, st') -> no_int64_overflow shapes st' ->
  val64 shapes st' v = denote rho e /\ cache_ok cfg rho shapes U st' /\ ext st st'.
Proof. exact lower_correct_gen. Qed.
Print Assumptions C04_lower_correct_gen.

(* when does truncating division (ONNX Div on int64) equal floor division (JAX)? *)
Theorem C04_trunc_is_floor_iff : forall a b, b <> 0 ->
  (Z.quot a b = a / b <-> (a mod b = 0 \/ 0 < a * b)).
Proof. exact quot_eq_div_iff. Qed.
Print Assumptions C04_trunc_is_floor_iff.

(* the repaired floordiv: Div(Sub(a, Mod(a, b)), b) with ONNX integer Mod (fmod=0, sign of divisor) *)
Theorem C04_floor_via_mod : forall a b, b <> 0 -> Z.quot (a - a mod b) b = a / b.
Proof. exact floor_via_mod. Qed.
Print Assumptions C04_floor_via_mod.

(* ---- the FIXED lowering satisfies the full property *)
Theorem C04_lower_fixed_correct : lower_correct_stmt cfg_fixed.
Proof. exact lower_fixed_correct. Qed.
Print Assumptions C04_lower_fixed_correct.

(* it rests on: namespaced printed keys identify the cache node (printing is injective) *)
Theorem C04_fixed_key_injective : forall n1 n2, ckey cfg_fixed n1 = ckey cfg_fixed n2 -> n1 = n2.
Proof. exact fixed_key_inj. Qed.
Print Assumptions C04_fixed_key_injective.

Theorem C04_print_expr_injective : forall e1 e2, print_expr e1 = print_expr e2 -> e1 = e2.
Proof. exact print_expr_injective. Qed.
Print Assumptions C04_print_expr_injective.

(* DimAsValuePlugin (origin -> Shape/Gather; constant; lowerer), fixed configuration *)
Theorem C04_dim_as_value_fixed_correct : forall e rho shapes og st v st',
  (forall s, 1 <= rho s) -> origins_ok og rho shapes -> cache_ok_all cfg_fixed rho shapes st ->
  defined rho e -> dim_as_value cfg_fixed og e st = Some (v, st') -> no_int64_overflow shapes st' ->
  val64 shapes st' v = denote rho e /\ cache_ok_all cfg_fixed rho shapes st' /\ ext st st'.
Proof. exact dim_as_value_fixed_correct. Qed.
Print Assumptions C04_dim_as_value_fixed_correct.

(* several expressions through one lowerer (LowerDimExpr.__call__, shared cache) *)
Theorem C04_lower_many_fixed_correct : forall es rho shapes og st vs st',
  origins_ok og rho shapes -> cache_ok_all cfg_fixed rho shapes st ->
  Forall (defined rho) es -> lower_many cfg_fixed og es st = Some (vs, st') -> no_int64_overflow shapes st' ->
  map (val64 shapes st') vs = map (denote rho) es /\ cache_ok_all cfg_fixed rho shapes st' /\ ext st st'.
Proof. exact lower_many_fixed_correct. Qed.
Print Assumptions C04_lower_many_fixed_correct.

(* wrap-around evaluation = ideal evaluation when no emitted node overflows int64 *)
Theorem C04_no_overflow_ideal : forall shapes ns, Forall in64 (vals shapes ns) -> vals64 shapes ns = vals shapes ns.
Proof. exact vals64_eq. Qed.
Print Assumptions C04_no_overflow_ideal.

(* non-vacuity: the partial theorem's hypotheses hold for the floordiv witness at b = 7, the
   collision test fires on b*b + 2*b and not on (b-5)//2+10 *)
Theorem C04_nonvacuous :
  key_collision wit_keys = true /\ keys_okb (subnodes wit_floordiv) = true
  /\ trunc_safe (fun _ => 7) wit_floordiv /\ defined (fun _ => 2) wit_floordiv
  /\ run_at cfg_current wit_keys 3 = Some (18, 15) /\ run_at cfg_fixed wit_keys 3 = Some (15, 15)
  /\ run_at cfg_current wit_floordiv 2 = Some (9, 8) /\ run_at cfg_fixed wit_floordiv 2 = Some (8, 8).
Proof. repeat split; reflexivity. Qed.
Print Assumptions C04_nonvacuous.
