(* stub: to be written *)
