(* C08 — static type and shape annotations never contradict run time.
   Only statements here; proofs live in theories/Annot.v over gen/GenShapes.v (= the annotation helpers of the
   current /repo tree, translated on every run by tools/units/c08_units.py). *)
From Coq Require Import ZArith String List Bool.
From J2O Require Import Onnx Annot.
From J2OGen Require Import GenShapes.
Import ListNotations.

(* (P) the TRANSLATED _broadcast_shape_dims never says something false: for every binding rho of the symbols and all
   run-time shapes cs that do not contradict the operand annotations, if the run-time shapes broadcast (numpy /
   ONNX multidirectional) to cr then no dim of the merged annotation contradicts cr (rank equal; every integer dim
   and every symbol under rho equals the run-time extent; unknown dims claim nothing).  Holds at full strength
   (any number of operands, no positivity assumption on rho). *)
Theorem C08_broadcast_dims_sound : forall rho shapes cs r cr,
  broadcast_shape_dims shapes = Some r -> Forall2 (shape_ok rho) shapes cs -> bcast_list cs = Some cr ->
  shape_ok rho r cr.
Proof. exact broadcast_dims_sound. Qed.
Print Assumptions C08_broadcast_dims_sound.

(* binary form: every KNOWN dim (DInt, or DSym under rho) of the result equals the dim of bcast at that axis *)
Theorem C08_broadcast_dims_sound2 : forall rho a b ca cb r cr,
  broadcast_shape_dims [a; b] = Some r -> shape_ok rho a ca -> shape_ok rho b cb -> bcast ca cb = Some cr ->
  length r = length cr /\
  (forall i d, nth_error r i = Some d -> forall n, denote_dim rho d = Some n -> nth_error cr i = Some n).
Proof. exact broadcast_dims_sound2. Qed.
Print Assumptions C08_broadcast_dims_sound2.

(* the executable broadcast is the numpy rule: rank = max rank; per axis (from the right, 1 when absent) every operand
   extent is 1 or the result extent, and the result extent is 1 or occurs *)
Theorem C08_bcast_is_numpy_rule : forall cs cr, bcast_list cs = Some cr -> Broadcast cs cr.
Proof. exact bcast_list_Broadcast. Qed.
Print Assumptions C08_bcast_is_numpy_rule.

(* (P) post-processing only weakens: the model of _loosen_graph_value_shapes over the TRANSLATED _unknown_shape_like
   leaves the annotations of the graph's own inputs/outputs untouched ... *)
Theorem C08_loosen_io_untouched : forall io produced force a v,
  str_mem v io = true -> loosen io produced force a v = a v.
Proof. exact loosen_io_untouched. Qed.
Print Assumptions C08_loosen_io_untouched.

(* ... and maps every dim to itself or to unknown (same rank; an absent annotation stays absent) *)
Theorem C08_loosen_weakens : forall io produced force a v l' i d',
  loosen io produced force a v = Some l' -> nth_error l' i = Some d' ->
  d' = DUnk \/ exists l, a v = Some l /\ length l = length l' /\ nth_error l i = Some d'.
Proof. exact loosen_weakens_dim. Qed.
Print Assumptions C08_loosen_weakens.

Theorem C08_loosen_preserves_truth : forall rho io produced force a v c,
  oshape_ok rho (a v) c -> oshape_ok rho (loosen io produced force a v) c.
Proof. exact loosen_preserves_truth. Qed.
Print Assumptions C08_loosen_preserves_truth.

(* the translated _unknown_shape_like: outside Loop/Scan bodies it never changes an annotation read from an ir.Shape;
   inside (force_rank_only) the annotation becomes rank-only *)
Theorem C08_unknown_shape_like_unforced : forall dims, unknown_shape_like dims false = None.
Proof. exact unknown_shape_like_unforced. Qed.
Print Assumptions C08_unknown_shape_like_unforced.
Theorem C08_unknown_shape_like_forced : forall d l,
  unknown_shape_like (Some (d :: l)) true = Some (repeat DUnk (S (length l))).
Proof. exact unknown_shape_like_forced. Qed.
Print Assumptions C08_unknown_shape_like_forced.

(* (P) _refresh_elementwise_output_shape: the full statement
     forall rho ps out cr, operands_ok rho ps -> bcast_list (map snd ps) = Some cr -> oshape_ok rho out cr ->
       oshape_ok rho (refresh (map fst ps) out) cr
   is FALSE of the faithful model of the unchanged tree: Add(x:[3], c:[1,1] constant), output annotated [1,3], is
   re-annotated [3] because operands with ONE element of ANY rank are skipped as "scalar". *)
Theorem C08_refresh_sound_refuted : ~ refresh_sound_statement.
Proof. exact refresh_sound_refuted. Qed.
Print Assumptions C08_refresh_sound_refuted.

Theorem C08_refresh_witness :
  refresh (map fst refresh_witness) (Some [DInt 1; DInt 3]) = Some [DInt 3]
  /\ bcast_list (map snd refresh_witness) = Some [1; 3]%nat.
Proof. exact refresh_witness_value. Qed.
Print Assumptions C08_refresh_witness.

(* second failure of the full statement (not reachable from JAX programs: JAX rejects x:[B] + y:[C]) *)
Theorem C08_refresh_sound_refuted_symbols :
  exists rho out cr, operands_ok rho refresh_witness_sym /\ bcast_list (map snd refresh_witness_sym) = Some cr /\
    oshape_ok rho out cr /\ ~ oshape_ok rho (refresh (map fst refresh_witness_sym) out) cr.
Proof. exact refresh_sound_refuted_symbols. Qed.
Print Assumptions C08_refresh_sound_refuted_symbols.

(* under the exact hypothesis: every kept operand has a declared shape, the kept annotations merge, and no skipped
   operand has a higher run-time rank than all kept operands *)
Theorem C08_refresh_sound_partial : forall rho ps out cr,
  operands_ok rho ps ->
  (forall o c, In (o, c) ps -> is_scalar_const o = false -> op_shape o <> None) ->
  (forall o c, In (o, c) ps -> is_scalar_const o = true -> length c <= kept_rank ps) ->
  broadcast_shape_dims (candidates (map fst ps)) <> None ->
  bcast_list (map snd ps) = Some cr ->
  oshape_ok rho (refresh (map fst ps) out) cr.
Proof. exact refresh_sound_partial. Qed.
Print Assumptions C08_refresh_sound_partial.

(* the rank hypothesis is exact: whenever it fails the refreshed annotation IS false *)
Theorem C08_refresh_rank_hypothesis_exact : forall rho ps out cr mg o c,
  operands_ok rho ps ->
  (forall o c, In (o, c) ps -> is_scalar_const o = false -> op_shape o <> None) ->
  In (o, c) ps -> is_scalar_const o = true -> kept_rank ps < length c ->
  broadcast_shape_dims (candidates (map fst ps)) = Some mg ->
  bcast_list (map snd ps) = Some cr ->
  refresh (map fst ps) out = Some mg /\ ~ shape_ok rho mg cr.
Proof. exact refresh_rank_hypothesis_exact. Qed.
Print Assumptions C08_refresh_rank_hypothesis_exact.

(* ---- history of the pass after the first repair.
   variant 2 (commit fbce23b: one-element constants are no longer skipped, operands without a declared shape still
   are): the full statement is REFUTED (Min(s without shape, scalar constant), s = [1,3] at run time, re-annotated [])
   and holds when every operand has a declared shape and the annotations merge *)
Theorem C08_refresh_variant2_refuted : ~ sound_statement refresh_fixed.
Proof. exact refresh_fixed_refuted. Qed.
Print Assumptions C08_refresh_variant2_refuted.

Theorem C08_refresh_fixed_sound : forall rho ps out cr,
  operands_ok rho ps ->
  (forall o c, In (o, c) ps -> op_shape o <> None) ->
  broadcast_shape_dims (candidates_all (map fst ps)) <> None ->
  bcast_list (map snd ps) = Some cr ->
  oshape_ok rho (refresh_fixed (map fst ps) out) cr.
Proof. exact refresh_fixed_sound. Qed.
Print Assumptions C08_refresh_fixed_sound.

(* variant 3 (commit 560936b, the code in force: an operand without a declared shape makes the pass return - AFTER
   `_copy_shape_dtype(outs[0], src)` has already written the source operand's shape): still REFUTED at full strength,
   Add(x:[3], y without shape), y = [2,3] at run time, output annotated [2,3] is re-annotated [3] *)
Theorem C08_refresh_variant3_refuted : ~ sound_statement refresh_v3.
Proof. exact refresh_v3_refuted. Qed.
Print Assumptions C08_refresh_variant3_refuted.
Theorem C08_refresh_variant3_witness :
  refresh_v3 (map fst refresh_witness_v3) (Some [DInt 2; DInt 3]) = Some [DInt 3]
  /\ bcast_list (map snd refresh_witness_v3) = Some [2; 3]%nat.
Proof. exact refresh_witness_v3_value. Qed.
Print Assumptions C08_refresh_variant3_witness.

(* exact hypothesis of variant 3: if some operand has no declared shape, the source operand (first operand that is not
   a one-element constant) has none either; if all are declared, the annotations merge *)
Theorem C08_refresh_variant3_sound_partial : forall rho ps out cr,
  operands_ok rho ps -> bcast_list (map snd ps) = Some cr -> oshape_ok rho out cr ->
  (has_unknown (map fst ps) = true ->
     forall src, shape_source (map fst ps) = Some src -> op_shape src = None) ->
  (has_unknown (map fst ps) = false -> broadcast_shape_dims (candidates_all (map fst ps)) <> None) ->
  oshape_ok rho (refresh_v3 (map fst ps) out) cr.
Proof. exact refresh_v3_sound_partial. Qed.
Print Assumptions C08_refresh_variant3_sound_partial.

(* variant 4 (proposed: decide first, write afterwards) is sound at FULL strength, without any hypothesis on declared
   shapes, ranks or symbols: sound_statement f := forall rho ps out cr, operands_ok rho ps ->
   bcast_list (map snd ps) = Some cr -> oshape_ok rho out cr -> oshape_ok rho (f (map fst ps) out) cr *)
Theorem C08_refresh_variant4_sound : sound_statement refresh_v4.
Proof. exact refresh_v4_sound. Qed.
Print Assumptions C08_refresh_variant4_sound.

(* ---- fold sites (commit e13e43d, `rewired=True`): after a fold has re-wired the node the old output annotation is
   stale.  fold_statement f := forall rho ps out cr, operands_ok rho ps -> bcast_list (map snd ps) = Some cr ->
   oshape_ok rho (f (map fst ps) out) cr  -- NO hypothesis about the old annotation `out`.
   The rewired refresh (variant 4 + "give up => unknown") satisfies it; variant 4 itself does not (history: the Max output
   of Reshape[2,3]-Max(a, constant without declared shape)-Reshape[6] kept [2,3] after the fold to Max(x:[6], c)) *)
Theorem C08_refresh_rewired_fold_sound : fold_statement refresh_rw.
Proof. exact refresh_rw_fold_sound. Qed.
Print Assumptions C08_refresh_rewired_fold_sound.
Theorem C08_refresh_variant4_fold_refuted : ~ fold_statement refresh_v4.
Proof. exact refresh_v4_fold_refuted. Qed.
Print Assumptions C08_refresh_variant4_fold_refuted.
Theorem C08_fold_witness :
  refresh_v4 (map fst fold_witness) (Some [DInt 2; DInt 3]) = Some [DInt 2; DInt 3]
  /\ refresh_rw (map fst fold_witness) (Some [DInt 2; DInt 3]) = None
  /\ bcast_list (map snd fold_witness) = Some [6]%nat.
Proof. exact fold_witness_value. Qed.
Print Assumptions C08_fold_witness.
Theorem C08_castlike_refresh_fold_sound : forall rho o c rest out,
  oshape_ok rho (op_shape o) c -> oshape_ok rho (castlike_refresh true (o :: rest) out) c.
Proof. exact castlike_refresh_fold_sound. Qed.
Print Assumptions C08_castlike_refresh_fold_sound.

(* (V) the checker run on every converted export: for every node with an exact shape rule whose operand annotations
   are fully static, the declared (fully static) output shape is the rule's result *)
Theorem C08_annot_consistent_sound : forall m, annot_consistent m = true ->
  forall g n s o d, In g (om_graphs m) -> In n (og_nodes g) ->
    rule_on g (lookup_static g) n = Some s -> hd_error (on_outs n) = Some o -> lookup_static g o = Some d -> d = s.
Proof. exact annot_consistent_sound. Qed.
Print Assumptions C08_annot_consistent_sound.

(* relative truth along the node list: if the run time obeys the operator rules, every annotation in [derive] is true
   as soon as the annotations of the start set (graph inputs, initializers) are *)
Theorem C08_derive_true : forall g rt nodes T,
  (forall n, In n nodes -> node_ok g n = true) -> (forall n, In n nodes -> runtime_obeys g rt n) ->
  (forall v, In v T -> annot_true g rt v) -> forall v, In v (derive g nodes T) -> annot_true g rt v.
Proof. exact derive_true. Qed.
Print Assumptions C08_derive_true.

(* the operator sets of the two propagation passes (translated constants) only contain operators with the shape rule the
   pass applies: same shape as the first input / multidirectional broadcast (Clip: scalar min/max by specification) *)
Theorem C08_unary_dataflow_ops_same_shape :
  forallb (fun o => str_mem o first_input_shape_ops) GS_UNARY_DATAFLOW_OPS = true.
Proof. exact unary_dataflow_ops_same_shape. Qed.
Print Assumptions C08_unary_dataflow_ops_same_shape.
Theorem C08_elementwise_binary_ops_broadcast :
  forallb (fun o => str_mem o broadcast_ops || String.eqb o "Clip") GS_ELEMENTWISE_BINARY_OPS = true.
Proof. exact elementwise_binary_ops_broadcast. Qed.
Print Assumptions C08_elementwise_binary_ops_broadcast.

(* (V) layout rules on ANY annotation (ints, symbols, unknown), every Transpose / same-shape node of every export: a node is
   flagged only when the declared dims of its output and what the rule gives from the declared dims of its input have
   different rank or, at some axis, cannot both be true for every binding of the graph-input symbols *)
Theorem C08_layout_contradiction_sound : forall free a b, dims_contra free a b = true ->
  length a <> length b \/ exists i rho, forall n, ~ (dim_ok rho (nth i a DUnk) n /\ dim_ok rho (nth i b DUnk) n).
Proof. exact dims_contra_sound. Qed.
Print Assumptions C08_layout_contradiction_sound.
