(* C17 — cast elimination removes only value-preserving round trips.
   Only statements here; proofs live in theories/C17Cast.v (over gen/GenCast.v = the current code). *)
From Coq Require Import ZArith List.
From J2O Require Import PyLib Dtype CastSem C17Cast.
From J2OGen Require Import GenCast.
Open Scope Z_scope.

(* every (source, intermediate) code pair the exporter's decision accepts is the identity on EVERY
   value of the source element type *)
Theorem C17_roundtrip_sound : forall cs ct,
  cast_roundtrip_is_value_preserving cs ct = Some true ->
  exists s t, dtype_of_code cs = Some s /\ dtype_of_code ct = Some t /\
    forall v, in_dom s v -> exists w, cast s t v = Some w /\ cast t s w = Some v.
Proof. exact roundtrip_sound. Qed.
Print Assumptions C17_roundtrip_sound.

Theorem C17_same_type_cast_id : forall d v, cast d d v = Some v.
Proof. exact same_type_cast_id. Qed.
Print Assumptions C17_same_type_cast_id.

Theorem C17_decision_never_raises : forall s t, decision s t <> None.
Proof. exact decision_total. Qed.
Print Assumptions C17_decision_never_raises.

(* unbounded: every element of ONNX Range(start, limit, delta) lies in the computed bounds *)
Theorem C17_range_bounds_sound : forall start limit delta lo hi,
  range_value_bounds start limit delta = Some (Some (lo, hi)) ->
  forall i, range_elem start limit delta i -> lo <= start + i * delta <= hi.
Proof. exact range_bounds_sound. Qed.
Print Assumptions C17_range_bounds_sound.

Theorem C17_range_narrowing_sound : forall s t sb tb start limit delta vmin vmax tmin tmax,
  int_info s = Some sb -> int_info t = Some tb ->
  range_value_bounds start limit delta = Some (Some (vmin, vmax)) ->
  integer_dtype_bounds (code_of t) = Some (Some (tmin, tmax)) ->
  known_values_fit_tail vmin vmax (tmin, tmax) = Some true ->
  forall i, range_elem start limit delta i -> in_int sb (start + i * delta) ->
    wrap sb (wrap tb (start + i * delta)) = start + i * delta.
Proof. exact range_narrowing_sound. Qed.
Print Assumptions C17_range_narrowing_sound.

Theorem C17_bounds_propagate_only_through_data_movement :
  forallb (fun o => str_in o shape_only_ops) INTEGER_VALUE_PRESERVING_OPS = true.
Proof. exact value_preserving_ops_are_shape_only. Qed.
Print Assumptions C17_bounds_propagate_only_through_data_movement.
