"""Enumerated neighbourhood of the optimizer's rewrite patterns (C02, used by C16 too).

Every generator yields (key, ModelProto).  Keys are stable strings that identify the graph
(they are the identity used by known_findings.json).  Graphs are ENUMERATED (all combinations
of the listed choices), not sampled; `limit` only truncates deterministically for the quick tier.
"""
import itertools

import numpy as np
import onnx
from onnx import TensorProto as TP
from onnx import helper as H
from onnx import numpy_helper as NH

OPSET = 23
F = TP.FLOAT


def _vi(name, dtype, shape):
    return H.make_tensor_value_info(name, dtype, shape)


def _model(nodes, inputs, outputs, inits=(), opset=OPSET, value_info=(), functions=()):
    g = H.make_graph(list(nodes), "g", list(inputs), list(outputs), initializer=list(inits), value_info=list(value_info))
    imports = [H.make_opsetid("", opset)] + ([H.make_opsetid("custom", 1)] if functions else [])
    m = H.make_model(g, opset_imports=imports, functions=list(functions))
    m.ir_version = 10
    return m


def _const(name, arr):
    return NH.from_array(np.asarray(arr), name)


def powerset_nonempty(items, must=()):
    items = [i for i in items if i not in must]
    for k in range(len(items) + 1):
        for c in itertools.combinations(items, k):
            yield list(must) + list(c)


PERMS3 = {"inv": ((1, 2, 0), (2, 0, 1)), "noninv": ((1, 2, 0), (1, 2, 0)), "swap": ((0, 2, 1), (0, 2, 1)),
          "id": ((0, 1, 2), (0, 1, 2))}
PERMS4 = {"nchw": ((0, 3, 1, 2), (0, 2, 3, 1)), "noninv4": ((0, 3, 1, 2), (0, 3, 1, 2))}


def transpose_family():
    """x -> Transpose(p1) -> chain(0..2 ops) -> Transpose(p2) [-> Relu]; side operands of binary chain
    members vary; every subset of intermediate values may also be a graph output; optional second
    consumer of the first transpose."""
    chains = [(), ("Relu",), ("Neg",), ("Max:scalar",), ("Max:ones111",), ("Max:full",), ("Max:lowrank",),
              ("Min:full",), ("Clip:scalar",), ("Add:scalar",), ("Add:full",), ("Mul:lowrank",),
              ("Relu", "Max:full"), ("Tanh", "Relu"), ("Cast:double", "Cast:float"), ("CastLike:full",),
              ("Max:inputT",), ("Add:inputT",)]
    shape3 = (2, 3, 4)
    for pname, (p1, p2) in list(PERMS3.items()) + list(PERMS4.items()):
        shape = shape3 if len(p1) == 3 else (2, 3, 4, 5)
        tshape = tuple(shape[i] for i in p1)
        for chain in chains:
            for extra in ("none", "t1_second_consumer"):
                nodes, inits, inputs = [], [], [_vi("in_0", F, shape)]
                vals = []          # candidate extra outputs (name, shape)
                nodes.append(H.make_node("Transpose", ["in_0"], ["t1"], perm=list(p1), name="T1"))
                vals.append(("t1", tshape))
                cur = "t1"
                for j, op in enumerate(chain):
                    out = f"c{j}"
                    base, _, side = op.partition(":")
                    ins = [cur]
                    attrs = {}
                    if base in ("Max", "Min", "Add", "Mul", "Clip", "CastLike"):
                        sname = f"s{j}"
                        if side == "scalar":
                            inits.append(_const(sname, np.float32(0.25)))
                        elif side == "ones111":
                            inits.append(_const(sname, np.full((1,) * len(shape), 0.25, np.float32)))
                        elif side == "full":
                            if "in_1" not in [i.name for i in inputs]:
                                inputs.append(_vi("in_1", F, tshape))
                            sname = "in_1"
                        elif side == "lowrank":
                            inits.append(_const(sname, (np.arange(tshape[-1], dtype=np.float32) - 1.5)))
                        elif side == "inputT":
                            # the side operand is ANOTHER transposed input with the same perm
                            if "in_1" not in [i.name for i in inputs]:
                                inputs.append(_vi("in_1", F, shape))
                            nodes.append(H.make_node("Transpose", ["in_1"], [f"tb{j}"], perm=list(p1), name=f"TB{j}"))
                            sname = f"tb{j}"
                        if base == "Clip":
                            inits.append(_const(f"hi{j}", np.float32(0.75)))
                            ins = [cur, sname, f"hi{j}"]
                        else:
                            ins = [cur, sname]
                    if base == "Cast":
                        attrs["to"] = TP.DOUBLE if side == "double" else TP.FLOAT
                    nodes.append(H.make_node(base, ins, [out], name=f"N{j}", **attrs))
                    vals.append((out, tshape))
                    cur = out
                nodes.append(H.make_node("Transpose", [cur], ["t2"], perm=list(p2), name="T2"))
                t2shape = tuple(tshape[i] for i in p2)
                nodes.append(H.make_node("Relu", ["t2"], ["y"], name="Tail"))
                final = [("y", t2shape)]
                if extra == "t1_second_consumer":
                    nodes.append(H.make_node("Neg", ["t1"], ["z"], name="Second"))
                    final.append(("z", tshape))
                dt = {v: F for v, _ in vals}
                # dtype of values after Cast:double
                curdt = F
                for j, op in enumerate(chain):
                    if op == "Cast:double":
                        curdt = TP.DOUBLE
                    elif op == "Cast:float":
                        curdt = F
                    dt[f"c{j}"] = curdt
                for outs in powerset_nonempty([v for v, _ in vals] + ["t2"], must=[f for f, _ in final]):
                    shp = dict(vals + final + [("t2", t2shape)])
                    o = [_vi(n, dt.get(n, F), shp[n]) for n in outs]
                    key = f"T/{pname}/{'+'.join(chain) or 'direct'}/{extra}/outs={','.join(outs)}"
                    yield key, _model(nodes, inputs, o, inits)


def reshape_family():
    """x[A,B] -> Reshape(s1) -> chain -> Reshape(s2); static and symbolic dims."""
    chains = [(), ("Relu",), ("Max:scalar",), ("Max:full",), ("Cast:double", "Cast:float")]
    cfgs = [
        ("static_back", (2, 6), [12], [2, 6]), ("static_other", (2, 6), [12], [6, 2]), ("static_same_rank", (2, 6), [3, 4], [2, 6]),
        ("sym_AB_back", ("A", "B"), None, None), ("sym_AB_swapped", ("A", "B"), None, "swap"),
        ("sym_A6_back", ("A", 6), [-1], [-1, 6]),
    ]
    for cname, shape, s1, s2 in cfgs:
        for chain in chains:
            nodes, inits = [], []
            inputs = [_vi("in_0", F, list(shape))]
            if s1 is None:
                # dynamic targets computed from Shape: flatten then restore (or restore swapped)
                inits.append(_const("m1", np.array([-1], np.int64)))
                nodes.append(H.make_node("Shape", ["in_0"], ["shp"], name="Shape"))
                nodes.append(H.make_node("Reshape", ["in_0", "m1"], ["r1"], name="R1"))
                mid_shape = [None]
                if s2 == "swap":
                    inits.append(_const("idx", np.array([1, 0], np.int64)))
                    nodes.append(H.make_node("Gather", ["shp", "idx"], ["shp2"], name="Gather"))
                    tgt, out_shape = "shp2", [shape[1], shape[0]]
                else:
                    tgt, out_shape = "shp", list(shape)
            else:
                inits.append(_const("s1", np.array(s1, np.int64)))
                inits.append(_const("s2", np.array(s2, np.int64)))
                nodes.append(H.make_node("Reshape", ["in_0", "s1"], ["r1"], name="R1"))
                mid_shape = [12 if d == -1 and not isinstance(shape[0], str) else (None if d == -1 else d) for d in s1]
                tgt = "s2"
                out_shape = [shape[0] if d == -1 else d for d in s2]
            cur = "r1"
            vals = [("r1", mid_shape)]
            for j, op in enumerate(chain):
                base, _, side = op.partition(":")
                ins, attrs = [cur], {}
                if base == "Max":
                    if side == "scalar":
                        inits.append(_const(f"s{j}", np.float32(0.25)))
                        ins = [cur, f"s{j}"]
                    else:
                        inputs.append(_vi("in_1", F, ["N" if d is None else d for d in mid_shape]))
                        ins = [cur, "in_1"]
                if base == "Cast":
                    attrs["to"] = TP.DOUBLE if side == "double" else TP.FLOAT
                nodes.append(H.make_node(base, ins, [f"c{j}"], name=f"N{j}", **attrs))
                vals.append((f"c{j}", mid_shape))
                cur = f"c{j}"
            nodes.append(H.make_node("Reshape", [cur, tgt], ["r2"], name="R2"))
            nodes.append(H.make_node("Relu", ["r2"], ["y"], name="Tail"))
            dt = {"r1": F}
            curdt = F
            for j, op in enumerate(chain):
                if op == "Cast:double":
                    curdt = TP.DOUBLE
                elif op == "Cast:float":
                    curdt = F
                dt[f"c{j}"] = curdt
            for outs in powerset_nonempty([v for v, _ in vals], must=["y"]):
                shp = dict(vals + [("y", out_shape)])
                o = [_vi(n, dt.get(n, F), shp[n]) for n in outs]
                # with annotations on the intermediates (the passes read shapes from value_info)
                vinfo = [_vi(n, dt.get(n, F), s) for n, s in vals if n not in outs] + [_vi("r2", F, out_shape)]
                key = f"R/{cname}/{'+'.join(chain) or 'direct'}/outs={','.join(outs)}"
                yield key, _model(nodes, inputs, o, inits, value_info=vinfo)


CAST_TYPES = [TP.FLOAT, TP.DOUBLE, TP.FLOAT16, TP.INT32, TP.INT64, TP.INT8, TP.UINT8, TP.BOOL, TP.INT16, TP.BFLOAT16]


def cast_family():
    """x:s -> Cast t -> Cast s (+ observed intermediate variants, + a second consumer)."""
    for s in CAST_TYPES:
        for t in CAST_TYPES:
            for variant in ("plain", "mid_is_output", "mid_second_consumer", "mid_captured_by_if"):
                nodes = [H.make_node("Cast", ["in_0"], ["mid"], to=t, name="C1"),
                         H.make_node("Cast", ["mid"], ["back"], to=s, name="C2"),
                         H.make_node("Identity", ["back"], ["y"], name="Tail")]
                inputs = [_vi("in_0", s, [5])]
                outs = [_vi("y", s, [5])]
                inits = []
                if variant == "mid_is_output":
                    outs.append(_vi("mid", t, [5]))
                elif variant == "mid_second_consumer":
                    nodes.append(H.make_node("Identity", ["mid"], ["z"], name="Second"))
                    outs.append(_vi("z", t, [5]))
                elif variant == "mid_captured_by_if":
                    inputs.append(_vi("in_1", TP.BOOL, []))
                    then_g = H.make_graph([H.make_node("Identity", ["mid"], ["tb"])], "then", [], [_vi("tb", t, [5])])
                    else_g = H.make_graph([H.make_node("Identity", ["mid"], ["eb"])], "else", [], [_vi("eb", t, [5])])
                    nodes.append(H.make_node("If", ["in_1"], ["w"], then_branch=then_g, else_branch=else_g, name="If"))
                    outs.append(_vi("w", t, [5]))
                yield f"C/{TP.DataType.Name(s)}->{TP.DataType.Name(t)}/{variant}", _model(nodes, inputs, outs, inits)


def misc_family():
    """Transpose pair with the first output captured by an If; Mul+Sigmoid (opset 24); Dropout; ReduceMean
    between transposes; Add with transposed operands; identity Reshape / Cast / Transpose."""
    shape, p1, p2 = (2, 3, 4), (1, 2, 0), (2, 0, 1)
    tshape = tuple(shape[i] for i in p1)
    # captured first transpose
    then_g = H.make_graph([H.make_node("Neg", ["t1"], ["tb"])], "then", [], [_vi("tb", F, tshape)])
    else_g = H.make_graph([H.make_node("Identity", ["t1"], ["eb"])], "else", [], [_vi("eb", F, tshape)])
    for chain in ((), ("Relu",)):
        nodes = [H.make_node("Transpose", ["in_0"], ["t1"], perm=list(p1), name="T1")]
        cur = "t1"
        for j, op in enumerate(chain):
            nodes.append(H.make_node(op, [cur], [f"c{j}"], name=f"N{j}"))
            cur = f"c{j}"
        nodes += [H.make_node("Transpose", [cur], ["t2"], perm=list(p2), name="T2"),
                  H.make_node("If", ["in_1"], ["w"], then_branch=then_g, else_branch=else_g, name="If")]
        yield (f"M/transpose_pair_first_captured_by_If/{'+'.join(chain) or 'direct'}",
               _model(nodes, [_vi("in_0", F, shape), _vi("in_1", TP.BOOL, [])], [_vi("t2", F, shape), _vi("w", F, tshape)]))
    # swish
    for opset in (23, 24):
        for order in ("x_sig", "sig_x"):
            for sig_out in (False, True):
                ins = ["in_0", "s"] if order == "x_sig" else ["s", "in_0"]
                nodes = [H.make_node("Sigmoid", ["in_0"], ["s"], name="Sig"), H.make_node("Mul", ins, ["y"], name="Mul")]
                outs = [_vi("y", F, [2, 3])] + ([_vi("s", F, [2, 3])] if sig_out else [])
                yield f"M/mul_sigmoid/opset{opset}/{order}/sig_out={sig_out}", _model(nodes, [_vi("in_0", F, [2, 3])], outs, opset=opset)
    # mul sigmoid of DIFFERENT values must not become Swish
    nodes = [H.make_node("Sigmoid", ["in_1"], ["s"], name="Sig"), H.make_node("Mul", ["in_0", "s"], ["y"], name="Mul")]
    yield "M/mul_sigmoid/other_value", _model(nodes, [_vi("in_0", F, [2, 3]), _vi("in_1", F, [2, 3])], [_vi("y", F, [2, 3])], opset=24)
    # reduce mean between transposes
    for keep in (0, 1):
        for axes in ([1], [1, 2], [0]):
            nodes = [H.make_node("Transpose", ["in_0"], ["t1"], perm=[0, 3, 1, 2], name="T1"),
                     H.make_node("ReduceMean", ["t1", "ax"], ["r"], keepdims=keep, name="RM")]
            inits = [_const("ax", np.array(axes, np.int64))]
            rshape = [2, 5, 3, 4]
            if keep:
                for a in axes:
                    rshape[a] = 1
                nodes.append(H.make_node("Transpose", ["r"], ["y"], perm=[0, 2, 3, 1], name="T2"))
                oshape = [rshape[i] for i in (0, 2, 3, 1)]
            else:
                rshape = [d for i, d in enumerate(rshape) if i not in axes]
                nodes.append(H.make_node("Identity", ["r"], ["y"], name="Id"))
                oshape = rshape
            yield f"M/transpose_reducemean/keep={keep}/axes={axes}", _model(nodes, [_vi("in_0", F, [2, 3, 4, 5])], [_vi("y", F, oshape)], inits)
            if keep:
                # the reduced value / the first transpose are ALSO graph outputs (observed intermediates)
                yield (f"M/transpose_reducemean/keep={keep}/axes={axes}/r_observed",
                       _model(nodes, [_vi("in_0", F, [2, 3, 4, 5])], [_vi("y", F, oshape), _vi("r", F, rshape)], inits))
                yield (f"M/transpose_reducemean/keep={keep}/axes={axes}/t1_observed",
                       _model(nodes, [_vi("in_0", F, [2, 3, 4, 5])], [_vi("y", F, oshape), _vi("t1", F, [2, 5, 3, 4])], inits))
    # add forest: Add(T(a), T(b)) -> T^-1, with outputs also observed
    for observed in (False, True):
        for second in ("T", "plain"):
            nodes = [H.make_node("Transpose", ["in_0"], ["ta"], perm=[0, 3, 1, 2], name="TA")]
            if second == "T":
                nodes.append(H.make_node("Transpose", ["in_1"], ["tb"], perm=[0, 3, 1, 2], name="TB"))
                in1 = _vi("in_1", F, [2, 3, 4, 5])
            else:
                nodes.append(H.make_node("Identity", ["in_1"], ["tb"], name="TB"))
                in1 = _vi("in_1", F, [2, 5, 3, 4])
            nodes += [H.make_node("Add", ["ta", "tb"], ["s"], name="Add"),
                      H.make_node("Transpose", ["s"], ["y"], perm=[0, 2, 3, 1], name="T2")]
            outs = [_vi("y", F, [2, 3, 4, 5])] + ([_vi("s", F, [2, 5, 3, 4])] if observed else [])
            yield f"M/add_forest/second={second}/sum_observed={observed}", _model(nodes, [_vi("in_0", F, [2, 3, 4, 5]), in1], outs)
    # dropout with constant training flag through Not
    for ratio in (0.0, 0.5):
        inits = [_const("ratio", np.float32(ratio)), _const("tt", np.array(True))]
        nodes = [H.make_node("Not", ["tt"], ["training"], name="Not"),
                 H.make_node("Dropout", ["in_0", "ratio", "training"], ["y"], name="Drop")]
        yield f"M/dropout_not_true/ratio={ratio}", _model(nodes, [_vi("in_0", F, [2, 3])], [_vi("y", F, [2, 3])], inits)
    # identity reshape with symbolic dims equal / unequal names
    for tgt_kind in ("same", "swapped_equal_rank"):
        nodes = [H.make_node("Shape", ["in_0"], ["shp"], name="Shape")]
        inits = []
        if tgt_kind == "same":
            tgt = "shp"
            oshape = ["A", "B"]
        else:
            inits.append(_const("idx", np.array([1, 0], np.int64)))
            nodes.append(H.make_node("Gather", ["shp", "idx"], ["shp2"], name="G"))
            tgt, oshape = "shp2", ["B", "A"]
        nodes += [H.make_node("Reshape", ["in_0", tgt], ["r"], name="R"), H.make_node("Relu", ["r"], ["y"], name="Tail")]
        yield f"M/identity_reshape_symbolic/{tgt_kind}", _model(nodes, [_vi("in_0", F, ["A", "B"])], [_vi("y", F, oshape)], inits,
                                                              value_info=[_vi("r", F, oshape)])


def table_ops_family():
    """every operator the CURRENT optimizer tables treat as layout-invariant / chain member, placed between an
    inverse transpose pair and an inverse reshape pair (ops the static corpus does not already cover)"""
    import os
    import sys
    sys.path.insert(0, os.environ.get("VERIF_REPO", "/repo"))
    from jax2onnx.converter import ir_optimizations as opt
    ops = sorted(set(opt.ELEMENTWISE_UNARY_OPS) | set(opt.ALLOWED_ELEMWISE) | set(opt.UNARY_DATAFLOW_OPS) | set(opt.ELEMENTWISE_BINARY_OPS))
    for op in ops:
        for fam, (p1, p2) in (("nchw", PERMS4["nchw"]), ("inv", PERMS3["inv"])):
            shape = (2, 3, 4) if len(p1) == 3 else (2, 3, 4, 5)
            tshape = tuple(shape[i] for i in p1)
            for arity, side in ((1, None), (2, "scalar"), (2, "inputT")):
                inputs = [_vi("in_0", F, shape)]
                inits = []
                nodes = [H.make_node("Transpose", ["in_0"], ["t1"], perm=list(p1), name="T1")]
                ins = ["t1"]
                if arity == 2 and side == "scalar":
                    inits.append(_const("s0", np.float32(0.25)))
                    ins.append("s0")
                elif arity == 2:
                    inputs.append(_vi("in_1", F, shape))
                    nodes.append(H.make_node("Transpose", ["in_1"], ["tb"], perm=list(p1), name="TB"))
                    ins.append("tb")
                kw = {"to": F} if op == "Cast" else {}
                nodes += [H.make_node(op, ins, ["c0"], name="N0", **kw),
                          H.make_node("Transpose", ["c0"], ["t2"], perm=list(p2), name="T2"),
                          H.make_node("Identity", ["t2"], ["y"], name="Tail")]
                yield f"O/{op}/transpose/{fam}/arity{arity}{'/' + side if side else ''}", _model(nodes, inputs, [_vi("y", F, shape)], inits)
        # between reshapes
        inits = [_const("s1", np.array([4, 6], np.int64)), _const("s2", np.array([2, 3, 4], np.int64))]
        kw = {"to": F} if op == "Cast" else {}
        nodes = [H.make_node("Reshape", ["in_0", "s1"], ["r1"], name="R1"), H.make_node(op, ["r1"], ["c0"], name="N0", **kw),
                 H.make_node("Reshape", ["c0", "s2"], ["r2"], name="R2"), H.make_node("Identity", ["r2"], ["y"], name="Tail")]
        yield f"O/{op}/reshape", _model(nodes, [_vi("in_0", F, [2, 3, 4])], [_vi("y", F, [2, 3, 4])], inits)


def mixed_dtype_family():
    """every operator of the CURRENT binary / chain tables applied to operands of DIFFERENT element types (a one-element
    constant of type TA with a tensor of type TB, both orders), followed by a Cast to each of the two types: only the
    schema-valid combinations survive the validity filter of the runner (Pow is the standard one).  An operator whose result
    type is not the type of every operand must not have its output re-typed / a following Cast dropped."""
    import os
    import sys
    sys.path.insert(0, os.environ.get("VERIF_REPO", "/repo"))
    from jax2onnx.converter import ir_optimizations as opt
    ops = sorted(set(opt.ELEMENTWISE_BINARY_OPS) | set(opt.ALLOWED_ELEMWISE))
    NP = {F: np.float32, TP.DOUBLE: np.float64, TP.INT32: np.int32, TP.INT64: np.int64}
    for op in ops:
        for ta, tb in ((F, TP.INT32), (TP.INT32, F), (F, TP.DOUBLE), (TP.DOUBLE, F), (TP.INT64, TP.INT32)):
            for order in ("const_first", "const_second"):
                c = _const("c", np.asarray(2, NP[ta]))
                ins = ["c", "in_0"] if order == "const_first" else ["in_0", "c"]
                for cast_to in (ta, tb):
                    nodes = [H.make_node(op, ins, ["p"], name="Op"), H.make_node("Cast", ["p"], ["y"], to=cast_to, name="C")]
                    yield (f"P/mixed_dtype/{op}/{TP.DataType.Name(ta)}x{TP.DataType.Name(tb)}/{order}/cast_{TP.DataType.Name(cast_to)}",
                           _model(nodes, [_vi("in_0", tb, [3])], [_vi("y", cast_to, [3])], [c]))


def capture_family():
    """an intermediate of a foldable pattern observed ONLY inside one branch of an If (then-only / else-only / both)"""
    shape, p1, p2 = (2, 3, 4), (1, 2, 0), (2, 0, 1)
    tshape = tuple(shape[i] for i in p1)
    pats = {
        "transpose_pair": ([H.make_node("Transpose", ["in_0"], ["m"], perm=list(p1), name="A"), H.make_node("Relu", ["m"], ["c"], name="B"),
                            H.make_node("Transpose", ["c"], ["z"], perm=list(p2), name="C")], tshape, shape, []),
        "reshape_pair": ([H.make_node("Reshape", ["in_0", "s1"], ["m"], name="A"), H.make_node("Relu", ["m"], ["c"], name="B"),
                          H.make_node("Reshape", ["c", "s2"], ["z"], name="C")], (4, 6), shape,
                         [_const("s1", np.array([4, 6], np.int64)), _const("s2", np.array([2, 3, 4], np.int64))]),
        "cast_pair": ([H.make_node("Cast", ["in_0"], ["m"], to=TP.DOUBLE, name="A"), H.make_node("Cast", ["m"], ["z"], to=F, name="C")],
                      shape, shape, []),
    }
    for pname, (nodes, mshape, zshape, inits) in pats.items():
        mdt = TP.DOUBLE if pname == "cast_pair" else F
        for where in ("then_only", "else_only", "both"):
            other = _const("k", np.zeros(mshape, np.float64 if mdt == TP.DOUBLE else np.float32))
            def br(tag, use):
                src = "m" if use else "k"
                return H.make_graph([H.make_node("Identity", [src], [f"b{tag}"])], f"g{tag}", [], [_vi(f"b{tag}", mdt, list(mshape))])
            then_g = br("t", where in ("then_only", "both"))
            else_g = br("e", where in ("else_only", "both"))
            ifn = H.make_node("If", ["in_1"], ["w"], then_branch=then_g, else_branch=else_g, name="If")
            yield (f"K/{pname}/captured_{where}", _model(list(nodes) + [ifn], [_vi("in_0", F, list(shape)), _vi("in_1", TP.BOOL, [])],
                                                          [_vi("z", F, list(zshape)), _vi("w", mdt, list(mshape))], list(inits) + [other]))

    # Mul(x, Sigmoid(x)) -> Swish (opset 24): the Sigmoid output observed only inside an If body / by another node
    for where in ("then_only", "else_only", "both"):
        for order in ("x_sig", "sig_x"):
            ins = ["in_0", "m"] if order == "x_sig" else ["m", "in_0"]
            nodes = [H.make_node("Sigmoid", ["in_0"], ["m"], name="Sig"), H.make_node("Mul", ins, ["z"], name="Mul")]
            other = _const("k", np.zeros((2, 3), np.float32))
            def brs(tag, use):
                src = "m" if use else "k"
                return H.make_graph([H.make_node("Neg", [src], [f"b{tag}"])], f"g{tag}", [], [_vi(f"b{tag}", F, [2, 3])])
            ifn = H.make_node("If", ["in_1"], ["w"], then_branch=brs("t", where in ("then_only", "both")),
                              else_branch=brs("e", where in ("else_only", "both")), name="If")
            yield (f"K/mul_sigmoid/{order}/captured_{where}", _model(nodes + [ifn], [_vi("in_0", F, [2, 3]), _vi("in_1", TP.BOOL, [])],
                                                                    [_vi("z", F, [2, 3]), _vi("w", F, [2, 3])], [other], opset=24))
    nodes = [H.make_node("Sigmoid", ["in_0"], ["m"], name="Sig"), H.make_node("Mul", ["in_0", "m"], ["z"], name="Mul"),
             H.make_node("Relu", ["m"], ["w"], name="R")]
    yield "K/mul_sigmoid/sigmoid_also_read_by_node", _model(nodes, [_vi("in_0", F, [2, 3])], [_vi("z", F, [2, 3]), _vi("w", F, [2, 3])], opset=24)


def multi_family():
    """two instances of a rewrite pattern in ONE graph sharing a constant (axes / shape tensors / side operand)"""
    # two Transpose-ReduceMean-Transpose patterns with DIFFERENT perms sharing the axes initializer
    for axes in ([1, 2], [1]):
        inits = [_const("ax", np.array(axes, np.int64))]
        nodes = [H.make_node("Transpose", ["in_0"], ["ta"], perm=[0, 2, 3, 1], name="TA1"),
                 H.make_node("ReduceMean", ["ta", "ax"], ["ra"], keepdims=1, name="RA"),
                 H.make_node("Transpose", ["ra"], ["ya"], perm=[0, 3, 1, 2], name="TA2"),
                 H.make_node("Transpose", ["in_1"], ["tb"], perm=[0, 3, 1, 2], name="TB1"),
                 H.make_node("ReduceMean", ["tb", "ax"], ["rb"], keepdims=1, name="RB"),
                 H.make_node("Transpose", ["rb"], ["yb"], perm=[0, 2, 3, 1], name="TB2")]
        sa = [2, 3, 4, 5]
        ta = [sa[i] for i in (0, 2, 3, 1)]
        for a in axes:
            ta[a] = 1
        ya = [ta[i] for i in (0, 3, 1, 2)]
        sb = [2, 4, 5, 3]
        tb = [sb[i] for i in (0, 3, 1, 2)]
        for a in axes:
            tb[a] = 1
        yb = [tb[i] for i in (0, 2, 3, 1)]
        yield (f"D/two_transpose_reducemean_shared_axes/{axes}",
               _model(nodes, [_vi("in_0", F, sa), _vi("in_1", F, sb)], [_vi("ya", F, ya), _vi("yb", F, yb)], inits))
    # same, unnamed reducers (name collisions of generated initializers)
    inits = [_const("ax", np.array([1], np.int64))]
    nodes = [H.make_node("Transpose", ["in_0"], ["ta"], perm=[0, 2, 3, 1]), H.make_node("ReduceMean", ["ta", "ax"], ["ra"], keepdims=1),
             H.make_node("Transpose", ["ra"], ["ya"], perm=[0, 3, 1, 2]),
             H.make_node("Transpose", ["in_1"], ["tb"], perm=[0, 3, 1, 2]), H.make_node("ReduceMean", ["tb", "ax"], ["rb"], keepdims=1),
             H.make_node("Transpose", ["rb"], ["yb"], perm=[0, 2, 3, 1])]
    yield ("D/two_transpose_reducemean_shared_axes/unnamed",
           _model(nodes, [_vi("in_0", F, [2, 3, 4, 5]), _vi("in_1", F, [2, 4, 5, 3])], [_vi("ya", F, [2, 1, 4, 5]), _vi("yb", F, [2, 4, 1, 3])], inits))
    # two reshape pairs sharing both shape tensors, second one must NOT fold (different source shape)
    inits = [_const("s1", np.array([12], np.int64)), _const("s2", np.array([2, 6], np.int64))]
    nodes = [H.make_node("Reshape", ["in_0", "s1"], ["a1"], name="A1"), H.make_node("Relu", ["a1"], ["a2"], name="A2"),
             H.make_node("Reshape", ["a2", "s2"], ["ya"], name="A3"),
             H.make_node("Reshape", ["in_1", "s1"], ["b1"], name="B1"), H.make_node("Relu", ["b1"], ["b2"], name="B2"),
             H.make_node("Reshape", ["b2", "s2"], ["yb"], name="B3")]
    yield ("D/two_reshape_pairs_shared_shapes",
           _model(nodes, [_vi("in_0", F, [2, 6]), _vi("in_1", F, [3, 4])], [_vi("ya", F, [2, 6]), _vi("yb", F, [2, 6])], inits))
    # two transpose chains sharing a non-scalar side operand
    nodes = [H.make_node("Transpose", ["in_0"], ["ta"], perm=[1, 2, 0], name="TA1"), H.make_node("Add", ["ta", "in_2"], ["sa"], name="AA"),
             H.make_node("Transpose", ["sa"], ["ya"], perm=[2, 0, 1], name="TA2"),
             H.make_node("Transpose", ["in_1"], ["tb"], perm=[1, 2, 0], name="TB1"), H.make_node("Mul", ["tb", "in_2"], ["sb"], name="BB"),
             H.make_node("Transpose", ["sb"], ["yb"], perm=[2, 0, 1], name="TB2")]
    yield ("D/two_transpose_chains_shared_side_operand",
           _model(nodes, [_vi("in_0", F, [2, 3, 4]), _vi("in_1", F, [2, 3, 4]), _vi("in_2", F, [3, 4, 2])],
                  [_vi("ya", F, [2, 3, 4]), _vi("yb", F, [2, 3, 4])]))


def _lookalike(op, n_in=1, attrs=(), opset=OPSET):
    """a model-local function in domain 'custom' whose NAME is a standard operator but whose body is something else
    (a Softmax over axis 0 / a MatMul): neither elementwise nor a layout change, same shape in and out on square inputs"""
    ins = [f"a{i}" for i in range(n_in)]
    if n_in == 1 or op == "Reshape":
        body = [H.make_node("Softmax", ["a0"], ["r"], axis=0)]
    else:
        body = [H.make_node("MatMul", ["a0", "a1"], ["r"])]
    return H.make_function("custom", op, ins, ["r"], body, [H.make_opsetid("", opset)], attributes=list(attrs))


def lookalike_family():
    """every rewrite pattern with ONE participating node replaced by a custom-domain function of the same op_type name:
    the optimizer must not treat it as the standard operator"""
    sq = [3, 3]
    I0, I1 = _vi("in_0", F, sq), _vi("in_1", F, sq)
    Y = [_vi("y", F, sq)]

    def cn(op, ins, outs, name, **kw):
        return H.make_node(op, ins, outs, name=name, domain="custom", **kw)
    # transpose pair, middle lookalike elementwise
    for mid in ("Relu", "Cast", "Neg", "Tanh"):
        nodes = [H.make_node("Transpose", ["in_0"], ["t1"], perm=[1, 0], name="T1"), cn(mid, ["t1"], ["c"], "Mid"),
                 H.make_node("Transpose", ["c"], ["y"], perm=[1, 0], name="T2")]
        yield f"F/transpose_pair/mid=custom.{mid}", _model(nodes, [I0], Y, functions=[_lookalike(mid)])
    # transpose pair, one of the transposes is a lookalike (carries a perm attribute)
    for which in (1, 2):
        t1 = (cn if which == 1 else H.make_node)("Transpose", ["in_0"], ["t1"], **({"name": "T1", "perm": [1, 0]}))
        t2 = (cn if which == 2 else H.make_node)("Transpose", ["c"], ["y"], **({"name": "T2", "perm": [1, 0]}))
        nodes = [t1, H.make_node("Relu", ["t1"], ["c"], name="Mid"), t2]
        yield f"F/transpose_pair/T{which}=custom.Transpose", _model(nodes, [I0], Y, functions=[_lookalike("Transpose", attrs=["perm"])])
    # reshape pair: middle / first / second lookalike
    inits = [_const("s1", np.array([9], np.int64)), _const("s2", np.array([3, 3], np.int64))]
    nodes = [H.make_node("Reshape", ["in_0", "s1"], ["r1"], name="R1"), cn("Relu", ["r1"], ["c"], "Mid"),
             H.make_node("Reshape", ["c", "s2"], ["y"], name="R2")]
    yield "F/reshape_pair/mid=custom.Relu", _model(nodes, [I0], Y, inits, functions=[_lookalike("Relu")])
    inits2 = [_const("s1", np.array([3, 3], np.int64)), _const("s2", np.array([3, 3], np.int64))]
    for which in (1, 2):
        r1 = (cn if which == 1 else H.make_node)("Reshape", ["in_0", "s1"], ["r1"], **{"name": "R1"})
        r2 = (cn if which == 2 else H.make_node)("Reshape", ["c", "s2"], ["y"], **{"name": "R2"})
        for chain in ((), ("Relu",)):
            mids, cur = [], "r1"
            for j, op in enumerate(chain):
                mids.append(H.make_node(op, [cur], [f"m{j}"], name=f"M{j}"))
                cur = f"m{j}"
            r2.input[0] = cur
            yield (f"F/reshape_pair/R{which}=custom.Reshape/{'+'.join(chain) or 'direct'}",
                   _model([r1] + mids + [r2], [I0], Y, inits2, functions=[_lookalike("Reshape", n_in=2)]))
    # identity reshape lookalike
    yield ("F/identity_reshape/custom.Reshape", _model([cn("Reshape", ["in_0", "s2"], ["y"], "R")], [I0], Y, [inits[1]],
                                                       functions=[_lookalike("Reshape", n_in=2)]))
    # cast pair lookalikes
    for which in (1, 2):
        c1 = (cn if which == 1 else H.make_node)("Cast", ["in_0"], ["d"], **{"name": "C1", "to": TP.DOUBLE})
        c2 = (cn if which == 2 else H.make_node)("Cast", ["d"], ["y"], **{"name": "C2", "to": F})
        fn = H.make_function("custom", "Cast", ["a0"], ["r"],
                             [H.make_node("Softmax", ["a0"], ["s"], axis=0), H.make_node("Cast", ["s"], ["r"], to=(TP.DOUBLE if which == 1 else F))],
                             [H.make_opsetid("", OPSET)], attributes=["to"])
        yield f"F/cast_pair/C{which}=custom.Cast", _model([c1, c2], [I0], Y, functions=[fn])
    yield ("F/identity_cast/custom.Cast", _model([cn("Cast", ["in_0"], ["y"], "C", to=F)], [I0], Y,
                                                 functions=[H.make_function("custom", "Cast", ["a0"], ["r"], [H.make_node("Softmax", ["a0"], ["r"], axis=0)],
                                                                            [H.make_opsetid("", OPSET)], attributes=["to"])]))
    # swish lookalikes (opset 24)
    nodes = [cn("Sigmoid", ["in_0"], ["s"], "Sig"), H.make_node("Mul", ["in_0", "s"], ["y"], name="Mul")]
    yield "F/mul_sigmoid/custom.Sigmoid", _model(nodes, [I0], Y, opset=24, functions=[_lookalike("Sigmoid", opset=24)])
    nodes = [H.make_node("Sigmoid", ["in_0"], ["s"], name="Sig"), cn("Mul", ["in_0", "s"], ["y"], "Mul")]
    yield "F/mul_sigmoid/custom.Mul", _model(nodes, [I0], Y, opset=24, functions=[_lookalike("Mul", n_in=2, opset=24)])
    # transposed-operands Add forest with a lookalike Add / lookalike Transposes
    nodes = [H.make_node("Transpose", ["in_0"], ["ta"], perm=[1, 0], name="TA"), H.make_node("Transpose", ["in_1"], ["tb"], perm=[1, 0], name="TB"),
             cn("Add", ["ta", "tb"], ["s"], "Add"), H.make_node("Transpose", ["s"], ["y"], perm=[1, 0], name="TO")]
    yield "F/add_forest/custom.Add", _model(nodes, [I0, I1], Y, functions=[_lookalike("Add", n_in=2)])
    nodes = [cn("Transpose", ["in_0"], ["ta"], "TA", perm=[1, 0]), H.make_node("Transpose", ["in_1"], ["tb"], perm=[1, 0], name="TB"),
             H.make_node("Add", ["ta", "tb"], ["s"], name="Add"), H.make_node("Transpose", ["s"], ["y"], perm=[1, 0], name="TO")]
    yield "F/add_forest/custom.Transpose_operand", _model(nodes, [I0, I1], Y, functions=[_lookalike("Transpose", attrs=["perm"])])
    # Transpose - ReduceMean - Transpose with a lookalike reducer
    sq4 = [2, 2, 2, 2]
    fn = H.make_function("custom", "ReduceMean", ["a0", "a1"], ["r"], [H.make_node("Softmax", ["a0"], ["r"], axis=0)], [H.make_opsetid("", OPSET)],
                         attributes=["keepdims"])
    nodes = [H.make_node("Transpose", ["in_0"], ["t1"], perm=[0, 3, 1, 2], name="T1"), cn("ReduceMean", ["t1", "ax"], ["r"], "RM", keepdims=1),
             H.make_node("Transpose", ["r"], ["y"], perm=[0, 2, 3, 1], name="T2")]
    yield ("F/transpose_reducemean/custom.ReduceMean", _model(nodes, [_vi("in_0", F, sq4)], [_vi("y", F, sq4)], [_const("ax", np.array([1], np.int64))],
                                                             functions=[fn]))
    # Dropout lookalike with constant training_mode
    fn = H.make_function("custom", "Dropout", ["a0", "a1", "a2"], ["r"], [H.make_node("Softmax", ["a0"], ["r"], axis=0)], [H.make_opsetid("", OPSET)])
    nodes = [H.make_node("Not", ["tm_true"], ["tm"], name="N"), cn("Dropout", ["in_0", "ratio", "tm"], ["y"], "D")]
    yield ("F/dropout/custom.Dropout", _model(nodes, [I0], Y, [_const("ratio", np.array(0.5, np.float32)), _const("tm_true", np.array(True))], functions=[fn]))


def forest_self_inverse_family():
    """a self-inverse Transpose that is both an input of an elementwise/Add forest and a consumer of it (the pass removed it twice)"""
    for mid in ("Relu", "Tanh"):
        for tail in ("Add", "Mul"):
            nodes = [H.make_node("Transpose", ["in_0"], ["a"], perm=[1, 0], name="TA"), H.make_node(mid, ["a"], ["s"], name="Mid"),
                     H.make_node("Transpose", ["s"], ["u"], perm=[1, 0], name="TU"), H.make_node(tail, ["s", "u"], ["m"], name="Tail"),
                     H.make_node("Transpose", ["m"], ["y"], perm=[1, 0], name="TY")]
            for outs in (["y"], ["y", "u"], ["y", "s"]):
                yield (f"M/forest_self_inverse/{mid}/{tail}/outs={','.join(outs)}",
                       _model(nodes, [_vi("in_0", F, [2, 2])], [_vi(o, F, [2, 2]) for o in outs]))


def addchain_self_inverse_family():
    """Add chains/forests with a self-inverse Transpose that is both a consumer of a chain value and an input of a later
    chain member (the Add-chain phase produced wrong values; the standalone add-forest pass raised)"""
    for tail in ("Add",):
        for outs in (["y"], ["y", "u"], ["y", "a1"]):
            nodes = [H.make_node("Transpose", ["in_0"], ["t1"], perm=[1, 0], name="T1"), H.make_node("Transpose", ["in_1"], ["t2"], perm=[1, 0], name="T2"),
                     H.make_node("Add", ["t1", "t2"], ["a1"], name="A1"), H.make_node("Transpose", ["a1"], ["u"], perm=[1, 0], name="TU"),
                     H.make_node(tail, ["a1", "u"], ["a2"], name="A2"), H.make_node("Transpose", ["a2"], ["y"], perm=[1, 0], name="TY")]
            yield (f"M/addchain_self_inverse/{tail}/outs={','.join(outs)}",
                   _model(nodes, [_vi("in_0", F, [2, 2]), _vi("in_1", F, [2, 2])], [_vi(o, F, [2, 2]) for o in outs]))
            nodes2 = list(nodes[:4]) + [H.make_node(tail, ["u", "a1"], ["a2"], name="A2"), nodes[5]]
            yield (f"M/addchain_self_inverse/{tail}/swapped/outs={','.join(outs)}",
                   _model(nodes2, [_vi("in_0", F, [2, 2]), _vi("in_1", F, [2, 2])], [_vi(o, F, [2, 2]) for o in outs]))


def side_rank_family():
    """Reshape -> binary elementwise op with a ONE-ELEMENT constant of rank 0..3 -> Reshape back: folding the pair is only
    right when the constant's rank does not exceed the source rank (numpy broadcasting left-pads otherwise)"""
    for src, mid in (([6], [2, 3]), ([2, 3], [6]), ([1, 6], [6])):
        for op in ("Max", "Min", "Add", "Mul", "Sub"):
            for cr in (0, 1, 2, 3):
                for side in ("right", "left"):
                    c = _const("c", np.full((1,) * cr, 0.5, np.float32))
                    ins = ["a", "c"] if side == "right" else ["c", "a"]
                    nodes = [H.make_node("Reshape", ["in_0", "s1"], ["a"], name="R1"), H.make_node(op, ins, ["b"], name="Op"),
                             H.make_node("Reshape", ["b", "s2"], ["y"], name="R2")]
                    inits = [c, _const("s1", np.array(mid, np.int64)), _const("s2", np.array(src, np.int64))]
                    yield (f"S/reshape_pair_side_const/{'x'.join(map(str, src))}->{'x'.join(map(str, mid))}/{op}/{side}/rank{cr}",
                           _model(nodes, [_vi("in_0", F, src)], [_vi("y", F, src)], inits))


def all_graphs():
    for fam in (lookalike_family, mixed_dtype_family, side_rank_family, forest_self_inverse_family, addchain_self_inverse_family, misc_family, multi_family, capture_family, table_ops_family, cast_family, reshape_family, transpose_family):
        yield from fam()
