#!/usr/bin/env python3
"""Fail-closed Python-ast -> Gallina translator (tie T of DESIGN.md).

The translator reads the CURRENT /repo source.  It supports a small, explicitly listed
subset of Python; anything else raises Unsupported, which the caller reports as a broken
proof obligation (never as silence).  Semantics of the subset live in coq/theories/PyLib.v.

Translation scheme: every expression is A-normalised into a list of monadic bindings
(`let* x := e in ...` over `option`, None = a Python exception) followed by a pure text.
`and` / `or` / conditional expressions keep their short-circuit evaluation; `x is not None`
narrows an Optional in the guarded code.
"""
import ast
import itertools
import sys


class Unsupported(Exception):
    pass


class T:
    def __init__(self, k, *a):
        self.k, self.a = k, a

    def __eq__(self, o):
        return isinstance(o, T) and (self.k, self.a) == (o.k, o.a)

    def __hash__(self):
        return hash((self.k, self.a))

    def __repr__(self):
        return f"{self.k}{list(self.a) if self.a else ''}"


Z, B, DT, S, NONE = T("Z"), T("bool"), T("dtype"), T("string"), T("none")
NPDT = T("npdtype")


def Opt(t):
    return T("option", t)


def Tup(*ts):
    return T("tuple", *ts)


def Lst(t):
    return T("list", t)


def coq_type(t):
    if t.k in ("Z", "bool", "dtype", "string", "npdtype"):
        return t.k
    if t.k == "option":
        return f"(option {coq_type(t.a[0])})"
    if t.k == "list":
        return f"(list {coq_type(t.a[0])})"
    if t.k == "tuple":
        return "(" + " * ".join(coq_type(x) for x in t.a) + ")"
    raise Unsupported(f"type {t}")


def _bad(n, why=""):
    raise Unsupported(f"line {getattr(n, 'lineno', '?')}: {why} :: {ast.unparse(n)[:100]}")


def coq_string(s):
    if any(ord(c) > 126 or ord(c) < 32 for c in s):
        raise Unsupported(f"non-printable string literal {s!r}")
    return '"' + s.replace('"', '""') + '"%string'


def parse_ann(n):
    if isinstance(n, ast.Constant) and isinstance(n.value, str):
        return parse_ann(ast.parse(n.value, mode="eval").body)
    if isinstance(n, ast.Name) and n.id in ("int", "bool", "str"):
        return {"int": Z, "bool": B, "str": S}[n.id]
    if isinstance(n, ast.Attribute) and ast.unparse(n) == "ir.DataType":
        return DT
    if isinstance(n, ast.Attribute) and ast.unparse(n) == "np.dtype":
        return NPDT
    if isinstance(n, ast.Subscript):
        head = ast.unparse(n.value)
        args = n.slice.elts if isinstance(n.slice, ast.Tuple) else [n.slice]
        if head == "Optional":
            return Opt(parse_ann(args[0]))
        if head in ("Tuple", "tuple"):
            if len(args) == 2 and isinstance(args[1], ast.Constant) and args[1].value is Ellipsis:
                return Lst(parse_ann(args[0]))
            return Tup(*[parse_ann(a) for a in args])
        if head in ("Sequence", "List", "list", "Iterable"):
            return Lst(parse_ann(args[0]))
        if head == "np.dtype":
            return NPDT
    if isinstance(n, ast.BinOp) and isinstance(n.op, ast.BitOr):
        # X | None
        if isinstance(n.right, ast.Constant) and n.right.value is None:
            return Opt(parse_ann(n.left))
    _bad(n, "annotation")


class Tr:
    """One translation unit.  `sigs` maps callee name -> (arg types, return type, coq name)."""

    def __init__(self, sigs, consts=None):
        self.sigs = sigs
        self.consts = consts or {}
        self.ctr = itertools.count()

    def fresh(self):
        return f"t{next(self.ctr)}_"

    @staticmethod
    def close(binds, text, partial_text=False):
        out = text if partial_text else f"(Some {text})"
        for v, e in reversed(binds):
            out = f"(let* {v} := {e} in {out})"
        return out

    def m(self, n, env):
        binds, txt, t = self.e(n, env)
        return self.close(binds, txt), t

    def raising(self, binds, optexpr):
        v = self.fresh()
        binds.append((v, optexpr))
        return v

    # ---- expressions: returns (binds, pure_text, type)
    def e(self, n, env):
        if isinstance(n, ast.Constant):
            if isinstance(n.value, bool):
                return [], ("true" if n.value else "false"), B
            if isinstance(n.value, int):
                return [], f"({n.value})%Z", Z
            if isinstance(n.value, str):
                return [], coq_string(n.value), S
            if n.value is None:
                return [], "None", NONE
            _bad(n)
        if isinstance(n, ast.Name):
            if n.id in env:
                return [], n.id, env[n.id]
            if n.id in self.consts:
                cn, ct = self.consts[n.id]
                return [], cn, ct
            _bad(n, "unknown name")
        if isinstance(n, ast.Attribute):
            u = ast.unparse(n)
            if u.startswith("ir.DataType."):
                return [], "DT_" + n.attr, DT
            b, v, t = self.e(n.value, env)
            if t == DT and n.attr == "bitwidth":
                return b, self.raising(b, f"(dtype_bitwidth {v})"), Z
            _bad(n)
        if isinstance(n, ast.Tuple):
            b = []
            parts = []
            for x in n.elts:
                bx, vx, tx = self.e(x, env)
                b += bx
                parts.append((vx, tx))
            return b, "(" + ", ".join(p[0] for p in parts) + ")", Tup(*[p[1] for p in parts])
        if isinstance(n, ast.List):
            b = []
            parts = []
            for x in n.elts:
                bx, vx, tx = self.e(x, env)
                b += bx
                parts.append((vx, tx))
            if not parts:
                _bad(n, "empty list literal")
            if any(p[1] != parts[0][1] for p in parts):
                _bad(n, "heterogeneous list")
            return b, "[" + "; ".join(p[0] for p in parts) + "]", Lst(parts[0][1])
        if isinstance(n, ast.Set):
            if n.elts and all(isinstance(x, ast.Constant) and isinstance(x.value, str) for x in n.elts):
                return [], "[" + "; ".join(coq_string(v) for v in sorted({x.value for x in n.elts})) + "]", Lst(S)
            _bad(n, "set literal")
        if isinstance(n, ast.UnaryOp):
            b, v, t = self.e(n.operand, env)
            if isinstance(n.op, ast.Not) and t == B:
                return b, f"(negb {v})", B
            if isinstance(n.op, ast.Not) and t == S:          # empty string is falsy
                return b, f"(String.eqb {v} EmptyString)", B
            if isinstance(n.op, ast.USub) and t == Z:
                return b, f"(- {v})%Z", Z
            _bad(n)
        if isinstance(n, ast.BinOp):
            b1, a, ta = self.e(n.left, env)
            b2, c, tc = self.e(n.right, env)
            b = b1 + b2
            if ta != Z or tc != Z:
                _bad(n, "non-int arithmetic")
            op = {ast.Add: "+", ast.Sub: "-", ast.Mult: "*"}.get(type(n.op))
            if op:
                return b, f"({a} {op} {c})%Z", Z
            if isinstance(n.op, ast.FloorDiv):
                return b, self.raising(b, f"(py_floordiv {a} {c})"), Z
            if isinstance(n.op, ast.Mod):
                return b, self.raising(b, f"(py_mod {a} {c})"), Z
            if isinstance(n.op, ast.LShift):
                return b, self.raising(b, f"(py_lshift {a} {c})"), Z
            _bad(n)
        if isinstance(n, ast.Compare):
            return self.compare(n, env)
        if isinstance(n, ast.BoolOp):
            return self.boolop(n, env)
        if isinstance(n, ast.IfExp):
            bc, c, tc = self.e(n.test, env)
            if tc != B:
                _bad(n)
            (a, ta), (d, td) = self.m(n.body, env), self.m(n.orelse, env)
            if ta != td:
                _bad(n, "if-exp branch types")
            return bc, self.raising(bc, f"(if {c} then {a} else {d})"), ta
        if isinstance(n, ast.Subscript) and isinstance(n.slice, ast.Slice):
            sl = n.slice
            b1, l, tl = self.e(n.value, env)
            if (tl == S and sl.upper is None and sl.step is None and isinstance(sl.lower, ast.Constant)
                    and isinstance(sl.lower.value, int) and sl.lower.value >= 0):
                return b1, f"(str_drop {sl.lower.value} {l})", S
            if (tl == S and sl.lower is None and sl.step is None and isinstance(sl.upper, ast.UnaryOp)
                    and isinstance(sl.upper.op, ast.USub) and isinstance(sl.upper.operand, ast.Constant)
                    and isinstance(sl.upper.operand.value, int) and sl.upper.operand.value > 0):
                return b1, f"(str_drop_end {sl.upper.operand.value} {l})", S
            _bad(n, "slice")
        if isinstance(n, ast.Subscript):
            b1, l, tl = self.e(n.value, env)
            b2, i, ti = self.e(n.slice, env)
            b = b1 + b2
            if tl.k != "list" or ti != Z:
                _bad(n, "subscript")
            return b, self.raising(b, f"(py_index {l} {i})"), tl.a[0]
        if isinstance(n, ast.ListComp) and len(n.generators) == 1 and not n.generators[0].ifs:
            g = n.generators[0]
            b, it, tit = self.e(g.iter, env)
            if tit.k != "list" or not isinstance(g.target, ast.Name):
                _bad(n)
            env2 = dict(env)
            env2[g.target.id] = tit.a[0]
            body, tb = self.m(n.elt, env2)
            return b, self.raising(b, f"(mapM (fun {g.target.id} => {body}) {it})"), Lst(tb)
        if isinstance(n, ast.Call):
            return self.call(n, env)
        _bad(n)

    def call(self, n, env):
        f = ast.unparse(n.func)
        if n.keywords:
            _bad(n, "keyword call")
        if f == "len" and len(n.args) == 1:
            b, v, t = self.e(n.args[0], env)
            if t.k != "list":
                _bad(n)
            return b, f"(Z.of_nat (length {v}))", Z
        if f == "range" and len(n.args) == 1:
            b, v, t = self.e(n.args[0], env)
            if t != Z:
                _bad(n)
            return b, f"(py_range {v})", Lst(Z)
        if f in ("list", "tuple") and len(n.args) == 1:
            b, v, t = self.e(n.args[0], env)
            if t.k != "list":
                _bad(n, "list() of non-list")
            return b, v, t
        if f in ("int", "bool") and len(n.args) == 1:
            b, v, t = self.e(n.args[0], env)
            if (f == "int" and t == Z) or (f == "bool" and t == B):
                return b, v, t
            _bad(n, "conversion")
        if f in ("min", "max") and len(n.args) == 2:
            b1, a, ta = self.e(n.args[0], env)
            b2, c, tc = self.e(n.args[1], env)
            if ta != Z or tc != Z:
                _bad(n)
            return b1 + b2, f"(py_{f} {a} {c})", Z
        if f == "ir.DataType" and len(n.args) == 1:
            b, v, t = self.e(n.args[0], env)
            if t != Z:
                _bad(n)
            return b, self.raising(b, f"(dtype_of_code {v})"), DT  # ValueError
        if isinstance(n.func, ast.Attribute) and not n.args and n.func.attr in ("strip", "lower"):
            b, v, t = self.e(n.func.value, env)
            if t != S:
                _bad(n, n.func.attr + " on non-str")
            return b, f"(str_{n.func.attr} {v})", S
        if isinstance(n.func, ast.Attribute) and not n.args and n.func.attr == "isdigit":
            b, v, t = self.e(n.func.value, env)
            if t != S:
                _bad(n, "isdigit on non-str")
            return b, f"(str_isdigit {v})", B
        if isinstance(n.func, ast.Attribute) and not n.args:
            b, v, t = self.e(n.func.value, env)
            if t == DT and n.func.attr == "is_signed":
                return b, self.raising(b, f"(dtype_is_signed {v})"), B
            if t == DT and n.func.attr in ("is_integer", "is_floating_point"):
                return b, f"(dtype_{n.func.attr} {v})", B
        if (isinstance(n.func, ast.Attribute) and n.func.attr == "get" and len(n.args) == 1
                and isinstance(n.func.value, ast.Name) and ("dict:" + n.func.value.id) in env):
            b, k, tk = self.e(n.args[0], env)
            d = env["dict:" + n.func.value.id]
            return b, f"({d[0]} {k})", Opt(d[1])
        if (isinstance(n.func, ast.Attribute) and n.func.attr in ("endswith", "startswith")
                and len(n.args) == 1):
            b, v, t = self.e(n.func.value, env)
            b2, a, ta = self.e(n.args[0], env)
            if t != S or ta != S:
                _bad(n)
            if n.func.attr == "startswith":
                return b + b2, f"(str_startswith {a} {v})", B
            return b + b2, f"(str_endswith {a} {v})", B
        if f in self.sigs:
            argts, rt, cname = self.sigs[f]
            if len(argts) != len(n.args):
                _bad(n, "arity")
            b = []
            args = []
            for a, ta in zip(n.args, argts):
                ba, v, t = self.e(a, env)
                b += ba
                if t == NONE and ta.k == "option":
                    v, t = "None", ta
                if ta.k == "option" and t == ta.a[0]:
                    v, t = f"(Some {v})", ta
                if t != ta:
                    _bad(n, f"arg type {t} vs {ta}")
                args.append(v)
            return b, self.raising(b, f"({cname} " + " ".join(args) + ")"), rt
        _bad(n, "call")

    def compare(self, n, env):
        if len(n.ops) != 1:
            _bad(n, "chained compare")
        op, r = n.ops[0], n.comparators[0]
        if isinstance(op, (ast.Is, ast.IsNot)) and isinstance(r, ast.Constant) and r.value is None:
            b, v, t = self.e(n.left, env)
            if t.k != "option":
                _bad(n, "None-test on non-optional")
            return b, f"({'isSome' if isinstance(op, ast.IsNot) else 'isNone'} {v})", B
        if isinstance(op, (ast.In, ast.NotIn)):
            b1, a, ta = self.e(n.left, env)
            b2, c, tc = self.e(r, env)
            if tc == Lst(S) and ta == S:
                e = f"(str_in {a} {c})"
            elif tc == Lst(Z) and ta == Z:
                e = f"(Z_in {a} {c})"
            else:
                _bad(n, "membership")
            return b1 + b2, (e if isinstance(op, ast.In) else f"(negb {e})"), B
        b1, a, ta = self.e(n.left, env)
        b2, c, tc = self.e(r, env)
        b = b1 + b2
        if ta != tc:
            _bad(n, f"compare {ta} vs {tc}")
        if ta == Z:
            sym = {ast.Eq: "=?", ast.Lt: "<?", ast.LtE: "<=?", ast.Gt: ">?", ast.GtE: ">=?"}.get(type(op))
            if sym:
                return b, f"({a} {sym} {c})%Z", B
            if isinstance(op, ast.NotEq):
                return b, f"(negb ({a} =? {c})%Z)", B
        if ta == DT and isinstance(op, (ast.Eq, ast.NotEq)):
            e = f"(dtype_eqb {a} {c})"
            return b, (e if isinstance(op, ast.Eq) else f"(negb {e})"), B
        if ta == S and isinstance(op, (ast.Eq, ast.NotEq)):
            e = f"(String.eqb {a} {c})"
            return b, (e if isinstance(op, ast.Eq) else f"(negb {e})"), B
        if ta == B and isinstance(op, (ast.Eq, ast.NotEq)):
            e = f"(Bool.eqb {a} {c})"
            return b, (e if isinstance(op, ast.Eq) else f"(negb {e})"), B
        if ta == Lst(Z) and isinstance(op, (ast.Eq, ast.NotEq)):
            e = f"(list_Z_eqb {a} {c})"
            return b, (e if isinstance(op, ast.Eq) else f"(negb {e})"), B
        _bad(n, "compare")

    def boolop(self, n, env):
        vals = n.values
        is_and = isinstance(n.op, ast.And)
        first = vals[0]
        if (is_and and isinstance(first, ast.Compare) and isinstance(first.ops[0], ast.IsNot)
                and isinstance(first.left, ast.Name)
                and isinstance(first.comparators[0], ast.Constant) and first.comparators[0].value is None
                and first.left.id in env and env[first.left.id].k == "option"):
            x = first.left.id
            env2 = dict(env)
            env2[x] = env[x].a[0]
            rest = vals[1] if len(vals) == 2 else ast.BoolOp(op=ast.And(), values=vals[1:])
            body, tb = self.m(rest, env2)
            if tb != B:
                _bad(n)
            b = []
            return b, self.raising(b, f"(match {x} with Some {x} => {body} | None => Some false end)"), B
        b0, v0, t0 = self.e(first, env)
        if t0 == B:
            rest = vals[1] if len(vals) == 2 else ast.BoolOp(op=n.op, values=vals[1:])
            body, tb = self.m(rest, env)
            if tb != B:
                _bad(n)
            txt = (f"(if {v0} then {body} else Some false)" if is_and
                   else f"(if {v0} then Some true else {body})")
            return b0, self.raising(b0, txt), B
        if t0.k == "option" and not is_and:
            # `a or b` on Optional[tuple]: a non-empty tuple is truthy, None is falsy
            if t0.a[0].k != "tuple":
                _bad(n, "truthiness of non-tuple optional")
            rest = vals[1] if len(vals) == 2 else ast.BoolOp(op=n.op, values=vals[1:])
            body, tb = self.m(rest, env)
            if tb != t0:
                _bad(n)
            return b0, self.raising(b0, f"(match {v0} with Some _ => Some {v0} | None => {body} end)"), t0
        _bad(n, "boolop")

    # ---- statements -> Gallina expression of type option RET
    def ret(self, s, env, ret):
        if s.value is None:
            _bad(s, "bare return")
        b, v, t = self.e(s.value, env)
        if t == NONE and ret.k == "option":
            v, t = "None", ret
        elif ret.k == "option" and t == ret.a[0]:
            v, t = f"(Some {v})", ret
        if t != ret:
            _bad(s, f"return type {t} vs {ret}")
        return self.close(b, v)

    def stmts(self, body, env, ret):
        if not body:
            raise Unsupported("function may fall off the end")
        s, rest = body[0], body[1:]
        if isinstance(s, ast.Expr) and isinstance(s.value, ast.Constant) and isinstance(s.value.value, str):
            return self.stmts(rest, env, ret)
        if isinstance(s, ast.Return):
            return self.ret(s, env, ret)
        if isinstance(s, ast.Raise):
            return "None"
        if isinstance(s, ast.AnnAssign) and s.value is not None and isinstance(s.target, ast.Name):
            s = ast.Assign(targets=[s.target], value=s.value, lineno=s.lineno)
        if isinstance(s, ast.Assign) and len(s.targets) == 1:
            tgt = s.targets[0]
            if isinstance(s.value, ast.Dict) and isinstance(tgt, ast.Name):
                arms = []
                vt = None
                for k, v in zip(s.value.keys, s.value.values):
                    bk, kk, tk = self.e(k, env)
                    bv, vv, tv = self.e(v, env)
                    if bk or bv:
                        _bad(s, "partial dict entry")
                    if vt is not None and tv != vt:
                        _bad(s, "heterogeneous dict")
                    vt = tv
                    arms.append(f"| {kk} => Some {vv}")
                env2 = dict(env)
                env2["dict:" + tgt.id] = (f"(fun k_ => match k_ with {' '.join(arms)} | _ => None end)", vt)
                return self.stmts(rest, env2, ret)
            b, v, t = self.e(s.value, env)
            env2 = dict(env)
            if isinstance(tgt, ast.Name):
                env2[tgt.id] = t
                pat = tgt.id
            elif isinstance(tgt, ast.Tuple) and t.k == "tuple" and len(tgt.elts) == len(t.a):
                for e_, te in zip(tgt.elts, t.a):
                    if not isinstance(e_, ast.Name):
                        _bad(s, "nested unpack")
                    env2[e_.id] = te
                pat = "'(" + ", ".join(e_.id for e_ in tgt.elts) + ")"
            else:
                _bad(s, "assignment target")
            k = self.stmts(rest, env2, ret)
            return self.close(b, f"(let {pat} := {v} in\n {k})", partial_text=True)
        if isinstance(s, ast.If):
            t = s.test

            def cont(blk):
                return list(blk) + ([] if ends_in_return(blk) else rest)

            if (isinstance(t, ast.Compare) and isinstance(t.left, ast.Name)
                    and isinstance(t.ops[0], (ast.Is, ast.IsNot))
                    and isinstance(t.comparators[0], ast.Constant) and t.comparators[0].value is None
                    and env.get(t.left.id, Z).k == "option"):
                x = t.left.id
                env_some = dict(env)
                env_some[x] = env[x].a[0]
                some_body, none_body = ((s.body, s.orelse) if isinstance(t.ops[0], ast.IsNot)
                                        else (s.orelse, s.body))
                a = self.stmts(cont(some_body), env_some, ret)
                b_ = self.stmts(cont(none_body), env, ret)
                return f"(match {x} with\n | Some {x} => {a}\n | None => {b_} end)"
            if (isinstance(t, ast.UnaryOp) and isinstance(t.op, ast.Not) and isinstance(t.operand, ast.Name)
                    and env.get(t.operand.id, Z) == Opt(S) and ends_in_return(s.body) and not s.orelse):
                x = t.operand.id
                falsy = self.stmts(list(s.body), env, ret)
                env_some = dict(env)
                env_some[x] = S
                truthy = self.stmts(rest, env_some, ret)
                return (f"(match {x} with\n | None => {falsy}\n | Some {x} => if String.eqb {x} EmptyString then {falsy} else {truthy} end)")
            conj = list(t.values) if isinstance(t, ast.BoolOp) and isinstance(t.op, ast.And) else [t]

            def is_nn(c):
                return (isinstance(c, ast.Compare) and isinstance(c.left, ast.Name)
                        and isinstance(c.ops[0], ast.IsNot)
                        and isinstance(c.comparators[0], ast.Constant) and c.comparators[0].value is None
                        and env.get(c.left.id, Z).k == "option")

            nn = [c.left.id for c in conj if is_nn(c)]
            others = [c for c in conj if not is_nn(c)]
            if nn and isinstance(t, ast.BoolOp):
                env_then = dict(env)
                for x in nn:
                    env_then[x] = env[x].a[0]
                d = self.stmts(cont(s.orelse), env, ret)
                a = self.stmts(cont(s.body), env_then, ret)
                if others:
                    test = others[0] if len(others) == 1 else ast.BoolOp(op=ast.And(), values=others)
                    b, c, tc = self.e(test, env_then)
                    if tc != B:
                        _bad(s, "non-bool condition")
                    a = self.close(b, f"(if {c} then {a} else {d})", partial_text=True)
                for x in reversed(nn):
                    a = f"(match {x} with\n | Some {x} => {a}\n | None => {d} end)"
                return a
            b, c, tc = self.e(t, env)
            if tc != B:
                _bad(s, "non-bool condition")
            a = self.stmts(cont(s.body), env, ret)
            d = self.stmts(cont(s.orelse), env, ret)
            return self.close(b, f"(if {c} then\n {a}\n else\n {d})", partial_text=True)
        if isinstance(s, ast.Try) and len(s.handlers) == 1 and not s.orelse and not s.finalbody:
            hb = self.stmts(list(s.handlers[0].body), env, ret)  # handler must return
            if len(s.body) == 1 and isinstance(s.body[0], ast.Return):
                tb = self.stmts(list(s.body), env, ret)
                return f"(match {tb} with Some r_ => Some r_ | None => {hb} end)"
            env2 = dict(env)
            packs = []
            for a in s.body:
                if not (isinstance(a, ast.Assign) and isinstance(a.targets[0], ast.Name)):
                    _bad(a, "try body")
                m_, t_ = self.m(a.value, env2)
                env2[a.targets[0].id] = t_
                packs.append((a.targets[0].id, m_))
            out = self.stmts(rest, env2, ret)
            for nm, m_ in reversed(packs):
                out = f"(match {m_} with\n | Some {nm} => {out}\n | None => {hb} end)"
            return out
        if isinstance(s, ast.For) and not s.orelse and isinstance(s.target, ast.Name):
            # for x in L: <body that may return>; continuation = rest.
            # Supported shape: body is a sequence of `if c: return E` / `if c: continue` statements (no state).
            b, it, tit = self.e(s.iter, env)
            if tit.k != "list":
                _bad(s, "for over non-list")
            x = s.target.id
            env2 = dict(env)
            env2[x] = tit.a[0]
            k = self.fresh()
            restv = self.stmts(rest, env, ret)
            body_txt = self.loop_body(list(s.body), env2, ret, k)
            fix = (f"((fix loop_ (l_ : list {coq_type(tit.a[0])}) : option {coq_type(ret)} := match l_ with\n"
                   f" | nil => {restv}\n | cons {x} {k}r_ => let {k} := loop_ {k}r_ in {body_txt} end) {it})")
            return self.close(b, fix, partial_text=True)
        _bad(s, "statement")

    def loop_body(self, body, env, ret, k):
        """statements of a for-body; falling off the end or `continue` means `k` (rest of the loop)."""
        if not body:
            return k
        s, rest = body[0], body[1:]
        if isinstance(s, ast.Continue):
            return k
        if isinstance(s, ast.Return):
            return self.ret(s, env, ret)
        if isinstance(s, ast.Raise):
            return "None"
        if isinstance(s, ast.If):
            b, c, tc = self.e(s.test, env)
            if tc != B:
                _bad(s, "non-bool loop condition")
            a = self.loop_body(list(s.body) + ([] if ends_in_jump(s.body) else rest), env, ret, k)
            d = self.loop_body(list(s.orelse) + ([] if ends_in_jump(s.orelse) else rest), env, ret, k)
            return self.close(b, f"(if {c} then {a} else {d})", partial_text=True)
        if isinstance(s, ast.Assign) and len(s.targets) == 1 and isinstance(s.targets[0], ast.Name):
            b, v, t = self.e(s.value, env)
            env2 = dict(env)
            env2[s.targets[0].id] = t
            kk = self.loop_body(rest, env2, ret, k)
            return self.close(b, f"(let {s.targets[0].id} := {v} in {kk})", partial_text=True)
        _bad(s, "loop statement")


def ends_in_return(body):
    if not body:
        return False
    last = body[-1]
    if isinstance(last, (ast.Return, ast.Raise)):
        return True
    if isinstance(last, ast.If):
        return ends_in_return(last.body) and ends_in_return(last.orelse)
    return False


def ends_in_jump(body):
    if not body:
        return False
    last = body[-1]
    if isinstance(last, (ast.Return, ast.Raise, ast.Continue)):
        return True
    if isinstance(last, ast.If):
        return ends_in_jump(last.body) and ends_in_jump(last.orelse)
    return False


# --------------------------------------------------------------------------------------
# module-level API


def _module(path):
    with open(path) as fh:
        return ast.parse(fh.read())


def find_functions(tree):
    out = {}
    for n in ast.walk(tree):
        if isinstance(n, ast.FunctionDef):
            out.setdefault(n.name, n)
    return out


def coq_name(nm):
    return nm.lstrip("_")


def translate_functions(path, names, prefix="", extra_sigs=None, consts=None, sub=None):
    """Translate the module-level (or first-found) functions `names` of `path`.

    `sub` optionally maps a function name to (anchor_source, params, ret) to translate only the
    statements FOLLOWING the first statement whose unparsed text equals anchor_source, as a
    function of the listed (name, annotation-string) params.
    """
    tree = _module(path)
    funs = find_functions(tree)
    sigs = dict(extra_sigs or {})
    plans = []
    for nm in names:
        if nm not in funs:
            raise Unsupported(f"{path}: missing function {nm}")
        f = funs[nm]
        if sub and nm in sub:
            anchor, params, rets, newname = sub[nm]
            body = None
            for node in ast.walk(f):
                for fld in ("body", "orelse"):
                    blk = getattr(node, fld, None)
                    if isinstance(blk, list):
                        for i, st in enumerate(blk):
                            if isinstance(st, ast.stmt) and ast.unparse(st) == anchor:
                                body = blk[i + 1:]
                                break
                    if body is not None:
                        break
                if body is not None:
                    break
            if body is None:
                raise Unsupported(f"{path}:{nm}: anchor statement not found: {anchor}")
            argnames = [p[0] for p in params]
            argts = [parse_ann(ast.parse(p[1], mode="eval").body) for p in params]
            rt = parse_ann(ast.parse(rets, mode="eval").body)
            cn = prefix + newname
            sigs[newname] = (argts, rt, cn)
            plans.append((newname, cn, argnames, argts, rt, body, f.lineno))
            continue
        if f.args.vararg or f.args.kwarg or f.args.defaults or f.args.kw_defaults:
            raise Unsupported(f"{nm}: parameters with defaults/varargs")
        allargs = list(f.args.args) + list(f.args.kwonlyargs)
        if any(a.annotation is None for a in allargs) or f.returns is None:
            raise Unsupported(f"{nm}: missing annotation")
        argts = [parse_ann(a.annotation) for a in allargs]
        rt = parse_ann(f.returns)
        cn = prefix + coq_name(nm)
        sigs[nm] = (argts, rt, cn)
        plans.append((nm, cn, [a.arg for a in allargs], argts, rt, list(f.body), f.lineno))
    tr = Tr(sigs, consts)
    out = []
    for nm, cn, argnames, argts, rt, body, lineno in plans:
        env = dict(zip(argnames, argts))
        txt = tr.stmts(body, env, rt)
        params = " ".join(f"({a} : {coq_type(t)})" for a, t in zip(argnames, argts))
        out.append(f"(* {path}:{lineno} {nm} *)\nDefinition {cn} {params} : option {coq_type(rt)} :=\n {txt}.\n")
    return "\n".join(out), sigs


def _const_value(node, path, nm):
    """literal module constant -> (coq text, type)"""
    if isinstance(node, ast.Call) and ast.unparse(node.func) in ("frozenset", "set", "tuple", "list") and len(node.args) == 1:
        return _const_value(node.args[0], path, nm)
    if isinstance(node, (ast.Set, ast.Tuple, ast.List)):
        elts = node.elts
        if not elts:
            raise Unsupported(f"{path}:{nm}: empty literal")
        if all(isinstance(e, ast.Constant) and isinstance(e.value, str) for e in elts):
            vals = [e.value for e in elts]
            if isinstance(node, ast.Set):
                vals = sorted(set(vals))  # a set has no order; canonicalise
            return "[" + "; ".join(coq_string(v) for v in vals) + "]", Lst(S)
        if all(isinstance(e, ast.Constant) and isinstance(e.value, int) and not isinstance(e.value, bool) for e in elts):
            vals = [e.value for e in elts]
            if isinstance(node, ast.Set):
                vals = sorted(set(vals))
            return "[" + "; ".join(f"({v})%Z" for v in vals) + "]", Lst(Z)
    if isinstance(node, ast.Constant):
        if isinstance(node.value, bool):
            return ("true" if node.value else "false"), B
        if isinstance(node.value, int):
            return f"({node.value})%Z", Z
        if isinstance(node.value, str):
            return coq_string(node.value), S
    if isinstance(node, ast.Dict):
        if all(isinstance(k, ast.Constant) and isinstance(k.value, str) for k in node.keys) and \
           all(isinstance(v, ast.Constant) and isinstance(v.value, int) for v in node.values):
            items = [(k.value, v.value) for k, v in zip(node.keys, node.values)]
            return "[" + "; ".join(f"({coq_string(k)}, ({v})%Z)" for k, v in items) + "]", Lst(Tup(S, Z))
    raise Unsupported(f"{path}:{nm}: unsupported constant {ast.unparse(node)[:80]}")


def translate_constants(path, names, prefix=""):
    tree = _module(path)
    found = {}
    for n in tree.body:
        tgt = None
        if isinstance(n, ast.Assign) and len(n.targets) == 1 and isinstance(n.targets[0], ast.Name):
            tgt, val = n.targets[0].id, n.value
        elif isinstance(n, ast.AnnAssign) and isinstance(n.target, ast.Name) and n.value is not None:
            tgt, val = n.target.id, n.value
        if tgt in names:
            found[tgt] = (val, n.lineno)
    out = []
    consts = {}
    for nm in names:
        if nm not in found:
            raise Unsupported(f"{path}: missing constant {nm}")
        val, lineno = found[nm]
        txt, t = _const_value(val, path, nm)
        cn = prefix + coq_name(nm)
        consts[nm] = (cn, t)
        out.append(f"(* {path}:{lineno} {nm} *)\nDefinition {cn} : {coq_type(t)} := {txt}.\n")
    return "\n".join(out), consts


HEADER = """(* GENERATED by tools/py2coq.py from the current /repo working tree. Do not edit. *)
From Coq Require Import ZArith String List Bool.
From J2O Require Import PyLib Dtype.
From J2OGen Require Import LibTables.
Import ListNotations.
Local Open Scope Z_scope.

"""

if __name__ == "__main__":
    names = ["_standard_float_format", "_complex_component_format", "_integer_format",
             "_integer_domain_fits_integer", "_integer_domain_fits_float", "_float_domain_fits_float",
             "_cast_roundtrip_is_value_preserving", "_is_inverse_perm", "_integer_dtype_bounds"]
    txt, _ = translate_functions("/repo/jax2onnx/converter/ir_optimizations.py", names)
    print(HEADER + txt)
