#!/usr/bin/env python3
"""ModelProto -> Gallina term of type J2O.Onnx.omodel (trusted converter; see coq/theories/Onnx.v)."""
import numpy as np
import onnx
from onnx import AttributeProto as AP
from onnx import numpy_helper


def cs(s):
    s = s.encode("ascii", "backslashreplace").decode()
    return '"' + s.replace('"', '""') + '"%string'


def cz(z):
    return f"({int(z)})%Z"


def clist(items):
    return "[" + "; ".join(items) + "]"


def c_dim(d):
    if d.HasField("dim_value"):
        return f"DInt {cz(d.dim_value)}"
    if d.HasField("dim_param") and d.dim_param:
        return f"DSym {cs(d.dim_param)}"
    return "DUnk"


def c_vinfo(vi):
    tt = vi.type.tensor_type if vi.type.HasField("tensor_type") else None
    dt = tt.elem_type if tt is not None else 0
    if tt is not None and tt.HasField("shape"):
        shp = "(Some " + clist([c_dim(d) for d in tt.shape.dim]) + ")"
    else:
        shp = "None"
    return f"(mkVI {cs(vi.name)} {cz(dt)} {shp})"


def c_init(t):
    return f"(mkVI {cs(t.name)} {cz(t.data_type)} (Some {clist(['DInt ' + cz(d) for d in t.dims])}))"


class Conv:
    def __init__(self):
        self.graphs = []

    def attr(self, a):
        if a.ref_attr_name:
            return "AOther"
        t = a.type
        if t == AP.INT:
            return f"AInt {cz(a.i)}"
        if t == AP.INTS:
            return "AInts " + clist([cz(i) for i in a.ints])
        if t == AP.FLOAT:
            return "AFloat"
        if t == AP.FLOATS:
            return "AFloats"
        if t == AP.STRING:
            try:
                return f"AStr {cs(a.s.decode('ascii'))}"
            except Exception:
                return "AOther"
        if t == AP.STRINGS:
            return "AStrs"
        if t == AP.TENSOR:
            small = "None"
            tz = a.t
            n = int(np.prod(tz.dims)) if len(tz.dims) else 1
            if tz.data_type in (6, 7) and n <= 16:
                try:
                    vals = numpy_helper.to_array(tz).reshape(-1).tolist()
                    small = "(Some " + clist([cz(v) for v in vals]) + ")"
                except Exception:
                    small = "None"
            return f"ATensor {cz(tz.data_type)} {clist([cz(d) for d in tz.dims])} {small}"
        if t == AP.GRAPH:
            return f"AGraph {self.graph(a.g, self.cur)}%nat"
        if t == AP.GRAPHS:
            return "AGraphs " + clist([f"{self.graph(g, self.cur)}%nat" for g in a.graphs])
        return "AOther"

    def node(self, n):
        attrs = clist([f"({cs(a.name)}, {self.attr(a)})" for a in n.attribute])
        return (f"(mkON {cs(n.op_type)} {cs(n.domain)} {cs(n.name)} {clist([cs(i) for i in n.input])} "
                f"{clist([cs(o) for o in n.output])} {attrs})")

    def graph(self, g, parent):
        gid = len(self.graphs)
        self.graphs.append(None)
        saved = getattr(self, "cur", None)
        self.cur = gid
        nodes = clist([self.node(n) for n in g.node])
        self.cur = saved
        par = "None" if parent is None else f"(Some {parent}%nat)"
        self.graphs[gid] = (f"(mkOG {gid}%nat {par} {clist([c_vinfo(v) for v in g.input])} {clist([c_init(t) for t in g.initializer])} "
                            f"{nodes} {clist([c_vinfo(v) for v in g.output])} {clist([c_vinfo(v) for v in g.value_info])})")
        return gid

    def function(self, f):
        self.cur = None
        # function bodies may contain nested graphs too: they are appended to the same table
        nodes = clist([self.node(n) for n in f.node])
        ops = clist([f"({cs(o.domain)}, {cz(o.version)})" for o in f.opset_import])
        return (f"(mkOF {cs(f.name)} {cs(f.domain)} {clist([cs(i) for i in f.input])} {clist([cs(o) for o in f.output])} "
                f"{nodes} {ops} {clist([cs(a) for a in f.attribute])})")


def model_term(m: onnx.ModelProto) -> str:
    c = Conv()
    c.cur = None
    c.graph(m.graph, None)
    funs = [c.function(f) for f in m.functions]
    ops = clist([f"({cs(o.domain)}, {cz(o.version)})" for o in m.opset_import])
    return f"(mkOM {cz(m.ir_version)} {ops} {clist(c.graphs)} {clist(funs)})"


if __name__ == "__main__":
    import sys
    print(model_term(onnx.load(sys.argv[1])))
