#!/usr/bin/env python3
"""Writes /verif/MANIFEST.json from the table below (kept here so the manifest is always valid)."""
import json
import os

VERIF = os.path.dirname(os.path.dirname(os.path.abspath(__file__)))
ALL = [f"C{i:02d}" for i in range(1, 20)]

CHECKS = {
    "C17": dict(
        category="proof",
        text="Full proof: the cast-elimination decision and the Range-bounds arithmetic are translated from the current "
             "source on every run (tie T); Coq proves that every accepted (source, intermediate) pair is the identity on every "
             "value of the source type (all integers, every finite float of the format, signed zeros, infinities, NaN, booleans, "
             "complex pairs) and that the Range bounds hold for unbounded start/limit/delta.",
        design_ref="DESIGN.md section 4 C17",
        note="Trusted: Coq kernel, stdlib real/classical/funext axioms (via Flocq), translator py2coq + PyLib (validated against the "
             "running Python on all 33x33 code pairs each run), CastSem.v as the meaning of ONNX Cast (cross-checked against numpy).",
        technique="Rocq proof over auto-translated decision code + Flocq formats; translator correspondence by vm_compute"),

    "C02": dict(
        category="proof",
        text="Proof (partial in the programs quantifier): Coq proves, for ALL SSA graphs over arbitrary operator semantics, the soundness of the two "
             "graph-surgery primitives every rewrite is built from (replace_all_uses_with incl. graph outputs and nested-graph captures; node removal "
             "with captures and graph outputs as observers), the semantic meaning of the translated permutation guard, the transpose-pair redirect in "
             "every graph, and that the translated commuting-operator sets contain only pointwise operators. The control flow of the 18 passes is not "
             "modelled: the whole rewrite neighbourhood (2.5k graphs: every subset of intermediates as outputs, side-operand kinds, nested captures, "
             "symbolic dims, cast table) is enumerated through the real optimizer with ONNX Runtime before/after.",
        design_ref="DESIGN.md section 4 C02",
        note="Trusted: Coq kernel (no axioms); translator for _is_inverse_perm and the op sets; Graph.v as the model of onnx_ir's replace_all_uses_with/remove "
             "(tied by differential run on random graphs with nested If bodies each run); ONNX Runtime as oracle for the enumeration (exploration, exhaustive over the listed families only).",
        technique="Rocq proofs of graph-rewrite primitives and guard lemmas over auto-translated code; exhaustive enumeration of rewrite neighbourhoods with ORT differential as tie/search"),
    "C12": dict(
        category="proof",
        text="Proof: for every teq-respecting function of the plain export, every subset of flagged 4-D inputs/outputs and every input, "
             "the flagged model fed NCHW versions returns the NCHW versions of the plain results and leaves unflagged positions untouched; "
             "the permutation constants and which constant each adapter site passes to Transpose are read from the current source each run; "
             "index validation accepts exactly duplicate-free in-range genuine integers (hand model tied to the code by differential run). "
             "Optimizer preservation after folding is checked per program with ONNX Runtime over all flag subsets of 8 programs.",
        design_ref="DESIGN.md section 4 C12",
        note="Trusted: Coq kernel (theorems closed, no axioms); regen unit GenLayout (AST facts about _LayoutAdapter); Tensor.v's ONNX Transpose semantics; "
             "the unoptimised real export is checked to carry exactly the modelled boundary transposes. The per-program ORT comparison after optimisation is exploration, not proof.",
        technique="Rocq proof over tensors-as-index-functions with source-extracted permutations; structural tie on the real export; ORT sweep over flag subsets"),
    "C06": dict(
        category="proof",
        text="Full proof of the four control-flow wiring schemes: Loop.v models ONNX Loop/If (with fuel; out-of-fuel and runtime fault are distinct outcomes) and JAX while_loop/scan/fori_loop/cond/switch, and Coq proves for EVERY trip count, sequence length (0 included), integer bound pair (upper<=lower included), predicate value and switch index that the Loop/If graph the plugins build returns JAX's final carry and stacked per-step outputs (incl. vmapped while with frozen lanes, two scanned arrays, length-only scan, 2-branch arity rejection). Validated tie: the scheme parameters are extracted from real exports of 25 programs each run and the assumed ONNX Loop/If semantics are evaluated inside Coq against onnxruntime.",
        design_ref="DESIGN.md section 4 C06, appendix B.5",
        note="Trusted: Coq kernel (no axioms); Loop.v's reading of the ONNX Loop/If spec (cross-checked each run against onnxruntime on 300 hand-built Loop runs + the steering sweep) and of the JAX docs; the ModelProto extractor in harness/c06.py. Not modelled: scan plumbing beyond the extracted parameters (dtype fix-up casts, axis-0 override/Expand/Pad and scatter-extent heuristics) and the lowering of bodies/conditions themselves (C01); these are only exercised by the sweep. Assumes trip count <= int64 max and no int32 wrap of lower+i.",
        technique="Rocq proof by induction on the iteration count over Gallina models of ONNX Loop/If and the plugin wiring; fail-closed structural extraction of scheme parameters from exported ModelProtos; ORT-vs-eager-JAX steering sweep as validation and counterexample search"),
    "C15": dict(
        category="proof",
        text="Proof about the modelled save/load logic (partial: the third-party writer is assumed): FileModes.v models jax2onnx's _save_model_proto (standard: spill >= threshold to <name>.data, nothing truncated/removed before writing, sidecar removed only if unreferenced AND empty; web: self-contained, sidecar removed) on top of an explicit assumed onnx writer variant (append/truncate, CWD-relative existence check on/off) and onnx.load's (location, offset, length) resolution. Coq proves by induction over unbounded histories of exports to one path (any mix of modes/sizes/CWDs, raising exports included, arbitrary prior directory) that the file loads bit-exactly to the last non-raising export, that web output is a single self-contained file, and that every external reference lies inside the region written by the last export; the full-strength 'load = last export' is REFUTED (FileExistsError when re-exporting from inside the output directory) and proved under the exact hypothesis 'the last export does not raise'.",
        design_ref="DESIGN.md section 4 C15",
        note="Trusted: Coq kernel (no axioms); ASSUMED onnx.save_model/onnx.load/protobuf round-trip behaviour, validated every run by Tie D (real to_onnx file exports over fixed+random histories with parameters 0.5 MiB..3 MiB on both sides of the effective 1 MiB-33 B threshold; file set, sidecar size, offsets/lengths, reload result compared inside Coq under 4 writer variants; installed onnx = append + CWD check). Real-code property check per step: proto == ir->proto == file reloaded, web file loads alone. Known finding: FileExistsError on standard re-export when CWD holds <basename>.data.",
        technique="Rocq proof over a hand-written file-system model generic in the byte-string implementation + correspondence by vm_compute on real export histories + differential check of return modes with onnx/onnxruntime"),
}

NOT_YET = {}


def main():
    checks = []
    for pid in ALL:
        if pid not in CHECKS:
            continue
        c = CHECKS[pid]
        checks.append({
            "property_id": pid,
            "quick_cmd": f"./check {pid} --tier quick",
            "thorough_cmd": f"./check {pid} --tier thorough",
            "evidence_file": f"/verif/evidence/{pid}.json",
            "replay_cmd_template": f"./check {pid} --replay {{path}}",
            "engine": "coq-j2o",
            "level_claimed": {"category": c["category"], "text": c["text"], "design_ref": c["design_ref"]},
            "level_note": c["note"],
            "technique": c["technique"],
        })
    na = [{"property_id": p, "reason": NOT_YET.get(p, "check not built yet in this development (work in progress; see DESIGN.md section 4 for the planned model)")}
          for p in ALL if p not in CHECKS]
    m = {
        "version": 1,
        "setup_cmd": "./check --setup",
        "hooks": {"guard": "JAX2ONNX_VERIF", "enable": "no source hooks: the harness sets JAX2ONNX_VERIF=1 and wraps registries in its own process only",
                  "baseline_off_cmd": "cd /repo && env -u JAX2ONNX_VERIF /venv/bin/python -m pytest -q -p no:cacheprovider --timeout=900 --continue-on-collection-errors",
                  "source_commits": [], "add_only": True},
        "engines": [{"name": "coq-j2o", "path": "/verif/coq", "serves_properties": sorted(CHECKS),
                     "kind_free_text": "Coq 8.16.1 development: hand-written models + proofs (theories/), code regenerated from /repo by tools/py2coq.py (gen/), property statements (props/); harness/*.py runs ties and searches"}],
        "checks": checks,
        "notes": "Technique family: machine-checked proof in Rocq/Coq. See DESIGN.md.",
        "not_applicable": na,
    }
    json.dump(m, open(os.path.join(VERIF, "MANIFEST.json"), "w"), indent=1)


if __name__ == "__main__":
    main()
