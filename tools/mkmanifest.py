#!/usr/bin/env python3
"""Writes /verif/MANIFEST.json from the table below (kept here so the manifest is always valid)."""
import json
import os

VERIF = os.path.dirname(os.path.dirname(os.path.abspath(__file__)))
ALL = [f"C{i:02d}" for i in range(1, 20)]

CHECKS = {
    "C17": dict(
        category="proof",
        text="Full proof: the cast-elimination decision and the Range-bounds arithmetic are translated from the current "
             "source on every run (tie T); Coq proves that every accepted (source, intermediate) pair is the identity on every "
             "value of the source type (all integers, every finite float of the format, signed zeros, infinities, NaN, booleans, "
             "complex pairs) and that the Range bounds hold for unbounded start/limit/delta.",
        design_ref="DESIGN.md section 4 C17",
        note="Trusted: Coq kernel, stdlib real/classical/funext axioms (via Flocq), translator py2coq + PyLib (validated against the "
             "running Python on all 33x33 code pairs each run), CastSem.v as the meaning of ONNX Cast (cross-checked against numpy).",
        technique="Rocq proof over auto-translated decision code + Flocq formats; translator correspondence by vm_compute"),
}

NOT_YET = {}


def main():
    checks = []
    for pid in ALL:
        if pid not in CHECKS:
            continue
        c = CHECKS[pid]
        checks.append({
            "property_id": pid,
            "quick_cmd": f"./check {pid} --tier quick",
            "thorough_cmd": f"./check {pid} --tier thorough",
            "evidence_file": f"/verif/evidence/{pid}.json",
            "replay_cmd_template": f"./check {pid} --replay {{path}}",
            "engine": "coq-j2o",
            "level_claimed": {"category": c["category"], "text": c["text"], "design_ref": c["design_ref"]},
            "level_note": c["note"],
            "technique": c["technique"],
        })
    na = [{"property_id": p, "reason": NOT_YET.get(p, "check not built yet in this development (work in progress; see DESIGN.md section 4 for the planned model)")}
          for p in ALL if p not in CHECKS]
    m = {
        "version": 1,
        "setup_cmd": "./check --setup",
        "hooks": {"guard": "JAX2ONNX_VERIF", "enable": "no source hooks: the harness sets JAX2ONNX_VERIF=1 and wraps registries in its own process only",
                  "baseline_off_cmd": "cd /repo && env -u JAX2ONNX_VERIF /venv/bin/python -m pytest -q -p no:cacheprovider --timeout=900 --continue-on-collection-errors",
                  "source_commits": [], "add_only": True},
        "engines": [{"name": "coq-j2o", "path": "/verif/coq", "serves_properties": sorted(CHECKS),
                     "kind_free_text": "Coq 8.16.1 development: hand-written models + proofs (theories/), code regenerated from /repo by tools/py2coq.py (gen/), property statements (props/); harness/*.py runs ties and searches"}],
        "checks": checks,
        "notes": "Technique family: machine-checked proof in Rocq/Coq. See DESIGN.md.",
        "not_applicable": na,
    }
    json.dump(m, open(os.path.join(VERIF, "MANIFEST.json"), "w"), indent=1)


if __name__ == "__main__":
    main()
