#!/usr/bin/env python3
"""Writes /verif/MANIFEST.json from the table below (kept here so the manifest is always valid)."""
import json
import os

VERIF = os.path.dirname(os.path.dirname(os.path.abspath(__file__)))
ALL = [f"C{i:02d}" for i in range(1, 20)]

CHECKS = {
    "C16": dict(
        category="proof",
        text="Proof: Lowering.v models the equation dispatcher and the input/output binding contract with an explicit error monad for ARBITRARY plugins and registries; "
             "Coq proves that an equation without a registered plugin makes lowering fail whatever precedes/follows it, also inside bodies lowered by a plugin (every nesting depth), "
             "that success implies every non-drop outvar is bound to a graph-connected value, and that unbound/disconnected outputs and unsupported results are errors. The optimizer "
             "failure policy is translated from the source each run: default never re-raises and returns the completed prefix of the pipeline, which is equivalent to the input if every "
             "pass is (C02); strict re-raises. Real-code crash-point sweeps: every pass index forced to raise under both policies, faults injected at every graph-surgery call inside passes, "
             "12 unsupported constructs at top level / loop body / loop cond / scan body / cond branch / jit body / function body must raise.",
        design_ref="DESIGN.md section 4 C16",
        note="Trusted: Coq kernel (no axioms); Lowering.v tied to lowering_dispatch/output_binding by differential run with scripted stub plugins (400 jaxprs, error class + final bindings compared in Coq); "
             "policy decision translated (GenPolicy) and compared with the running code on 60 (argument, env) pairs. Known findings: an exception raised INSIDE a pass (between graph-surgery calls) is swallowed by the "
             "default policy and leaves an inconsistent model (6 (graph, pass) pairs listed).",
        technique="Rocq proof over an executable dispatcher model with error monad + translated policy; fault injection at pass boundaries and inside passes on the real optimizer"),
    "C17": dict(
        category="proof",
        text="Full proof: the cast-elimination decision and the Range-bounds arithmetic are translated from the current "
             "source on every run (tie T); Coq proves that every accepted (source, intermediate) pair is the identity on every "
             "value of the source type (all integers, every finite float of the format, signed zeros, infinities, NaN, booleans, "
             "complex pairs) and that the Range bounds hold for unbounded start/limit/delta.",
        design_ref="DESIGN.md section 4 C17",
        note="Trusted: Coq kernel, stdlib real/classical/funext axioms (via Flocq), translator py2coq + PyLib (validated against the "
             "running Python on all 33x33 code pairs each run), CastSem.v as the meaning of ONNX Cast (cross-checked against numpy).",
        technique="Rocq proof over auto-translated decision code + Flocq formats; translator correspondence by vm_compute"),

    "C02": dict(
        category="proof",
        text="Proof (partial in the programs quantifier): Coq proves, for ALL SSA graphs over arbitrary operator semantics, the soundness of the two "
             "graph-surgery primitives every rewrite is built from (replace_all_uses_with incl. graph outputs and nested-graph captures; node removal "
             "with captures and graph outputs as observers), the semantic meaning of the translated permutation guard, the transpose-pair redirect in "
             "every graph, and that the translated commuting-operator sets contain only pointwise operators. The control flow of the 18 passes is not "
             "modelled: the whole rewrite neighbourhood (2.5k graphs: every subset of intermediates as outputs, side-operand kinds, nested captures, "
             "symbolic dims, cast table) is enumerated through the real optimizer with ONNX Runtime before/after.",
        design_ref="DESIGN.md section 4 C02",
        note="Trusted: Coq kernel (no axioms); translator for _is_inverse_perm and the op sets; Graph.v as the model of onnx_ir's replace_all_uses_with/remove "
             "(tied by differential run on random graphs with nested If bodies each run); ONNX Runtime as oracle for the enumeration (exploration, exhaustive over the listed families only).",
        technique="Rocq proofs of graph-rewrite primitives and guard lemmas over auto-translated code; exhaustive enumeration of rewrite neighbourhoods with ORT differential as tie/search"),
    "C04": dict(
        category="proof",
        text="Proof: JAX dimension expressions (sum of coeff*term, product of factor^power, floordiv/mod/max/min) with JAX's integer semantics, and a faithful Gallina image of LowerDimExpr INCLUDING its single cache keyed by printed forms and of DimAsValuePlugin's three routes. The full statement (every expression, every positive binding, any initial cache satisfying the invariant, no int64 overflow => the emitted int64 graph evaluates to JAX's value) is REFUTED for the original code by two kernel-checked witnesses (b*b+2*b exported as 2*b*b via the colliding key '(b, 2)'; (b-5)//2+10 truncates), proved under the exact extra hypotheses, and PROVED AT FULL STRENGTH for the repaired lowering now in the tree (namespaced keys + Div(Sub(a,Mod(a,b)),b)), which needed a proof that shape_poly's printing is injective. The model configuration is detected from the code at run time.",
        design_ref="DESIGN.md section 4 C04, appendix B.4",
        note="Trusted: Coq kernel (no axioms); DimExpr.v as image of lower_dimexpr.py/dim_as_value.py, tied on every run for every generated expression (344 quick / 1544 thorough through real jax symbolic shapes and the real to_onnx) by comparing inside Coq the printed tokens with Python str, the cache keys with the real compute_cache, the operator sequence with the exported graph (modulo the exporter's CSE) and the model's value with onnxruntime on a 13/21-point binding lattice; every ORT!=JAX pair is attributed with the single-defect model variants. onnxruntime is run with graph optimizations disabled (its default optimizer rewrites Mul(Div(1,x),y) to Div(y,x) on int64 - runtime defect, reported in coverage). Origin re-recording in function scopes/loop bodies/NCHW adapters and plugin shape handling (17 programs explored on the lattice) are not proved.",
        technique="Rocq proof by nested induction with a cache invariant + proof of unambiguous printing; refutation by vm_compute; model/implementation correspondence inside Coq against onnxruntime on generated expressions"),
    "C13": dict(
        category="proof",
        text="Proof over a two-shape executable model of the patch stack (theories/Patch.v; the code shape is probed at run time): since /repo b0781c1 apply_patches, the plugin ExitStack, apply_monkey_patches and any history of conversions restore every own dict EXACTLY, hence getattr for every observer, with no side condition, for all spec lists (duplicates, inheriting targets in any order), all synchronous fault points including inside the apply_monkey_patches enter loop, and all nesting depths; _PATCH_STATE and the x64 flag are restored at every exit; only an asynchronous exception between setattr and the bookkeeping still leaks (witness proved). Eager-after-export is REFUTED via the jit trace cache (known finding). The theorems and refutations of the pre-b0781c1 code (no_inherited_clash / MRO coherence side conditions) are kept as C13_legacy_*.",
        design_ref="DESIGN.md section 4 C13, appendix B.3",
        note="Model tied per run: 360 synthetic apply_patches cases with a fault at every position, 160 apply_monkey_patches cases (depth 1-3, enter faults), 72 x64 cases, and the model evaluated on the dumped real spec list (623 specs) predicting exactly the real own-dict/getattr changes (none on the current code). Real process checked over ~39 conversions (success / failure in trace, lowering, nested body, serialization) with a 21.9k-attribute getattr_static snapshot, user-model leaves, x64, eager probes. Assumptions: single-threaded; no async exception between setattr and append; descriptors/metaclass fall-back outside the model (checked per key).",
        technique="Rocq proof over a hand-written two-shape executable heap/MRO model + runtime shape probe + differential ties to the running patch machinery + real-process attribute snapshot across conversion histories"),
    "C18": dict(
        category="proof",
        text="Proof: Allclose.v models the per-output decision of _run_allclose exactly (count check, NCHW back-transpose, complex re-packing, shape test, floating/non-floating split, numpy isclose with equal_nan over exact rationals, array_equal). For the original code the soundness statement is REFUTED in Coq by two computed witnesses (int32 1 vs float 1.5; int32 5 vs int64 2^32+5) and proved under the exact extra hypothesis; for the repaired comparison now in the tree (compare_fixed) the full statement is proved: match => equal count, and per output equal shape, equal dtype kind, every element within tolerance / exactly equal, plus its contrapositive (every difference is reported). _temporary_x64 is proved to restore the flag for every prior value, body behaviour and exit. Each run ties the real jax2onnx.allclose verdict to the model on ~300 (quick) / ~1200 (thorough) single-perturbation ONNX models and re-checks every 'match' verdict with exact rational arithmetic; the model variant is chosen by probing the witness at run time.",
        design_ref="DESIGN.md section 4 C18",
        note="Trusted: Coq kernel (stdlib real-number axioms only under the complex-modulus link lemma); Allclose.v as hand model of _run_allclose (Tie D on every case); onnxruntime as executor of the stored model; Fraction arithmetic for the independent check. Gap: numpy evaluates the tolerance test in floating point, the model in exact rationals - tied cases are exactly representable; ml_dtypes types and platform-dependent float->int casts of NaN/Inf are outside the model.",
        technique="Rocq proof over an executable model of the comparator (refuted/partial for the original code, full for the repaired code) + differential tie on hand-built ONNX models + exact re-check of verdicts"),
    "C19": dict(
        category="proof",
        text="Full proof of the binding half: PySig.v models CPython argument binding (PEP 3102/570), proves it equal to a declarative per-argument/per-parameter statement, and proves an exact decision procedure for 'every call form the original accepts, the substitute accepts' over ALL call forms (any number of positionals, arbitrary keyword names) with a computed counterexample otherwise. The signatures are read by inspect.signature on every run from the installed originals and from the substitutes the converter really installs (inside _activate_plugin_worlds) for every patched attribute of the plugin registry; each counterexample is replayed on the real objects. The 'no argument silently ignored' half has no theorem and is explored by single-argument programs through to_onnx+onnxruntime.",
        design_ref="DESIGN.md section 4 C19, appendix B.6",
        note="Trusted: Coq kernel (no axioms used), binds as the meaning of CPython binding (compared each run with real calls of def-functions of the same shape and with inspect.Signature.bind on 500/5000 random call forms), inspect.signature as reader of parameter lists (every reported pair also confirmed by really calling the substitute), enumeration via plugin_system/conversion_api of the tree under test. 63 known findings (48 signature rejections, 15 ignored/mis-bound arguments) are listed in known_findings.d/C19.json.",
        technique="Rocq proof of a finite-probe exhaustiveness lemma (exact decision procedure) evaluated by vm_compute on signatures read from the running code; counterexample replay; differential exploration JAX vs exported ONNX for argument semantics"),
    "C07": dict(
        category="proof",
        text="Proof, partial (key adequacy relative to named assumptions; two refuted statements): Dedup.v proves over Graph.v's SSA semantics with uninterpreted operators that a call node evaluates exactly like its body inlined with actuals substituted (function_transparent, inline_call_sound for the whole caller graph); models the function registry of _lower_and_call as a fold over call sites (any order/length/nesting, registry hits skip the nested body, name counters) and proves: for EVERY adequate key each emitted call names a definition denoting that site's function, two calls share a definition only if they denote the same function, identifiers and keys are unique, arities match; for EVERY non-adequate key a site sequence exists where a call names a wrong definition. The FunctionKey exactly as the code builds it is proved adequate under four visible hypotheses (no hash collision, fingerprint injective on what it sees, id() unique and callee unmutated, one unmutated function per qualified name) on sites avoiding two holes, and proved NOT adequate at full strength (static kwarg whose array conversion fails; state the repr-based fingerprint does not expose) - both holes confirmed on the real exporter.",
        design_ref="DESIGN.md section 4 C07",
        note="Trusted: Coq kernel (all theorems closed under the global context); Graph.v semantics of a call node; hand-written abstract site descriptions of harness/c07_programs.py; onnxruntime/eager JAX/onnx.inliner. Tie: Dedup.predict (real key, registry, naming, arities) evaluated in Coq by vm_compute against the ModelProto of 61 (quick) / 735 (thorough) real exports. Property run: decorated export == decorator-stripped export == eager JAX in onnxruntime on 51 fixed programs (one differing component each) and random call sequences with random boundary placement. 5 known findings listed in known_findings.d/C07.json.",
        technique="Rocq proof (inlining simulation under injective renaming; fold invariant of the dedup registry; key adequacy by component analysis with explicit hypotheses and refutation witnesses) + model-vs-export tie by vm_compute + differential execution decorated/plain/JAX"),
    "C09": dict(
        category="proof",
        text="Proof + per-export validation: the float policy (numpy_dtype_to_ir_with_float_policy, _dtype_to_ir, _to_ir_dtype_from_np, both promote helpers, the initializer down-cast, the closed-constant dtype decision, bind_const_for_var, the post-processing promotion rule) and the two jax_enable_x64 context managers are translated from the current source on every run; Coq proves the complete decision table over all 15 numpy dtypes x flag (single mode = identity embedding, DOUBLE iff float64; double mode: float32/float64 -> DOUBLE, never FLOAT, float16/bfloat16/complex64 kept; class and integer width preserved), that to_onnx leaves the process-wide x64 flag unchanged for EVERY behaviour of conversion/post-processing (normal or exceptional exit, nested calls), and that float32->float64 promotion is exact (Flocq). What plugins do ad hoc is checked per export: the validator no_double/first_double (sound and complete over all graphs, nested bodies and function bodies) is evaluated inside Coq on every single-precision export of the shared corpus; double-precision exports are run (ORT / onnx reference evaluator) against the same jaxpr evaluated by JAX x64.",
        design_ref="DESIGN.md section 4 C09",
        note="Trusted: Coq kernel (stdlib real/classical/funext axioms only in the 3 Flocq theorems), py2coq + the numpy-dtype extension in tools/units/c09_units.py (tied EXHAUSTIVELY: 1221 rows, 64 manager runs), dumped numpy/onnx_ir tables, onnx2coq (cross-checked per export against an independent Python scan), ORT/onnx reference evaluator and JAX x64 as evaluators. Numeric part in scope only for float64-only x64 jaxprs; a 1e-9..1e-5 deviation is charged to the model only with float32 evidence in the model that a one-ulp perturbation experiment shows to be material. 45 known findings (np.promote_types-based DOUBLE in single exports; hidden float32 attributes/constants in double exports; FLOAT island in atan2; mixed-precision random_bits).",
        technique="Rocq proof over auto-translated policy code and context managers (finite exhaustive tie) + Flocq format inclusion; validator with soundness/completeness evaluated by vm_compute on converted real exports; differential ORT vs JAX(x64)"),
    "C12": dict(
        category="proof",
        text="Proof: for every teq-respecting function of the plain export, every subset of flagged 4-D inputs/outputs and every input, "
             "the flagged model fed NCHW versions returns the NCHW versions of the plain results and leaves unflagged positions untouched; "
             "the permutation constants and which constant each adapter site passes to Transpose are read from the current source each run; "
             "index validation accepts exactly duplicate-free in-range genuine integers (hand model tied to the code by differential run). "
             "Optimizer preservation after folding is checked per program with ONNX Runtime over all flag subsets of 8 programs.",
        design_ref="DESIGN.md section 4 C12",
        note="Trusted: Coq kernel (theorems closed, no axioms); regen unit GenLayout (AST facts about _LayoutAdapter); Tensor.v's ONNX Transpose semantics; "
             "the unoptimised real export is checked to carry exactly the modelled boundary transposes. The per-program ORT comparison after optimisation is exploration, not proof.",
        technique="Rocq proof over tensors-as-index-functions with source-extracted permutations; structural tie on the real export; ORT sweep over flag subsets"),
    "C05": dict(
        category="proof",
        text="Proof + validation: the always-keep decision of the input-pruning pass is translated from the current source each run and Coq proves that "
             "every positional-input name the exporter generates (in_<i> and in_<i>_nchw, EVERY index i) is kept, that pruning never drops or reorders "
             "positional inputs whether used or not, only removes, and keeps every used input; the element-type rule of the interface checker is proved to "
             "imply the property's clauses (same class, float width per flag unless requested, ints keep or widen to int64, complex as trailing pair). "
             "The checker interface_ok is evaluated inside Coq on real exports of 17 programs x {single,double} x {default,custom names} x layout flags "
             "against jax.eval_shape (count, order, names, dtypes, ranks, static dims, symbols).",
        design_ref="DESIGN.md section 4 C05",
        note="Trusted: Coq kernel (no axioms); py2coq string semantics (PyLib.v) for _should_always_keep; hand model `prune` tied to prune_unused_graph_inputs_ir by differential run; "
             "onnx2coq/Onnx.v converter; jax.eval_shape (in the precision mode of the export) as oracle of the callable's signature. Known findings: outputs aliasing inputs/each other share one name; custom names then raise.",
        technique="Rocq proof over auto-translated string predicate (all indices) + proved-spec interface checker evaluated by vm_compute on real exports"),
    "C06": dict(
        category="proof",
        text="Full proof of the four control-flow wiring schemes: Loop.v models ONNX Loop/If (with fuel; out-of-fuel and runtime fault are distinct outcomes) and JAX while_loop/scan/fori_loop/cond/switch, and Coq proves for EVERY trip count, sequence length (0 included), integer bound pair (upper<=lower included), predicate value and switch index that the Loop/If graph the plugins build returns JAX's final carry and stacked per-step outputs (incl. vmapped while with frozen lanes, two scanned arrays, length-only scan, 2-branch arity rejection). Validated tie: the scheme parameters are extracted from real exports of 25 programs each run and the assumed ONNX Loop/If semantics are evaluated inside Coq against onnxruntime.",
        design_ref="DESIGN.md section 4 C06, appendix B.5",
        note="Trusted: Coq kernel (no axioms); Loop.v's reading of the ONNX Loop/If spec (cross-checked each run against onnxruntime on 300 hand-built Loop runs + the steering sweep) and of the JAX docs; the ModelProto extractor in harness/c06.py. Not modelled: scan plumbing beyond the extracted parameters (dtype fix-up casts, axis-0 override/Expand/Pad and scatter-extent heuristics) and the lowering of bodies/conditions themselves (C01); these are only exercised by the sweep. Assumes trip count <= int64 max and no int32 wrap of lower+i.",
        technique="Rocq proof by induction on the iteration count over Gallina models of ONNX Loop/If and the plugin wiring; fail-closed structural extraction of scheme parameters from exported ModelProtos; ORT-vs-eager-JAX steering sweep as validation and counterexample search"),
    "C14": dict(
        category="proof",
        text="Proof, partial: Determinism.v proves a fold-order-irrelevance schema (equal results under any permutation when members commute) and instantiates it for every loop over a Python set in the optimizer and function-call lowering (sites identified by (file,function,variable), re-derived from the AST each run): replace_all_uses_with loops over Graph.v under the exact side condition shown to follow from the pass's matching, list(set) removal, read-only check/collect loops with break, dict build, guarded removal, per-node rewiring, refresh in graph order, iteration over sorted(set) (sorting is permutation-invariant, proved). The two sites that were order-dependent on the original tree are kept as refuted statements (fixed in /repo 77c9ea7). Names are a function of the request iff every counter family is per conversion (proved as an equivalence, instantiated for the tree's scopes, tied by AST + behaviour each run); the lowering-signature memo table is transparent. The property itself is explored on the real code: 32 requests x fresh subprocesses under 8/64 PYTHONHASHSEEDs, randomised histories with failing conversions, 3x repeats, shuffled plugin import order and forced legal set iteration orders; sha256 of deterministic serialisation must agree.",
        design_ref="DESIGN.md section 4 C14",
        note="Trusted: Coq kernel (no axioms); hand-written per-element action models (tied to the source through the AST site scan, a per-site allowlist of loop-body callees and a runtime trace of every iteration over sets created in the converter core); NOT modelled and covered only by the sweep: CPython hash order, id()/memory layout, onnx_ir per-value use order, onnx_ir common passes, protobuf deterministic serialisation.",
        technique="Rocq commutation proofs over a fold/permutation schema + refutation by vm_compute; AST and runtime site enumeration; subprocess differential sweep over hash seeds, conversion histories, import orders and forced set iteration orders"),
    "C15": dict(
        category="proof",
        text="Proof about the modelled save/load logic (partial: the third-party writer is assumed): FileModes.v models `_save_model_proto` (standard: remove old sidecar, spill >= threshold to <name>.data, drop an unreferenced empty sidecar; web: self-contained, sidecar removed) on top of an explicit assumed onnx writer variant (append/truncate, CWD-relative existence check on/off) and onnx.load's (location, offset, length) resolution; the code/writer variant is selected by the tie. Coq proves for unbounded histories of exports to one path (any modes/sizes/CWDs, raising exports included, any prior directory): for the current code (no CWD check, old sidecar removed first) the file ALWAYS loads bit-exactly to the last export (C15_load_after_save_no_cwd_check); exports are history independent (main file and sidecar equal those of an export into an empty directory: no stale byte survives, sidecar size exact); web output is one self-contained file; for the earlier code variants the statement is refuted (witness histories) and proved under the exact hypothesis, together with exactly when an export raises and what it leaves.",
        design_ref="DESIGN.md section 4 C15",
        note="Trusted: Coq kernel (no axioms); ASSUMED onnx.save_model/onnx.load/protobuf round trip, validated every run by Tie D (real to_onnx file exports over fixed+random histories, parameters 0.5-3 MiB on both sides of the effective 1 MiB-33 B threshold, three kinds of CWD; file set, sidecar size, offsets/lengths, reload result compared inside Coq under 6 code/writer variants; the variant of the current code is a named obligation). Real-code check per step: proto == ir->proto == file reloaded (protobuf bytes modulo data_location presence bit, initializer bytes, onnxruntime outputs), web file loads alone. Fixed in /repo: 1d7bd45 (FileExistsError / sidecar growth on re-export from the output directory), e203da0 (FileExistsError when the CWD holds an unrelated <basename>.data, which since 1d7bd45 also destroyed the previous export's sidecar).",
        technique="Rocq proof over a hand-written file-system model generic in the byte-string implementation + correspondence by vm_compute on real export histories + differential check of return modes with onnx/onnxruntime"),
    "C10": dict(
        category="proof",
        text="Proof (partial in the transformations quantifier): (i) Batch.v models the shared broadcasting batch rule (`broadcast_batcher_compat` + `_handle_scalar_broadcasting`) over tensors-as-index-functions and proves it equal to the DEFINITION of vmap (stack of per-example results) for every elementwise numpy-broadcasting binary primitive, all shapes, ranks and batch dims; for the pre-repair helper the statement is refuted by a witness and proved on the exact fragment; the elementwise hypothesis is shown necessary (dot/matmul) and every plugin using the shared batcher is classified. (ii) Inline.v (over the dispatcher model Lowering.v): lowering the alpha-renamed (freshened) body of jit / nested jit / custom_jvp / custom_vjp / remat equals the renaming of lowering the original body - same graph, same outer bindings, same errors - and two inlinings with disjoint fresh maps do not clash. (iii) Linear.v: every name in `_LINEAR_TRANSPOSE_FALLBACK_ALLOWLIST` (translated from the source each run) denotes a function linear in its differentiable operands; forwarding pairs share a denotation; allow/block lists are disjoint. Not proved, explored: T(f) for 33 functions x 22 transformations and vmap of ~870 registry testcases, real to_onnx + onnxruntime versus eager JAX.",
        design_ref="DESIGN.md section 4 C10",
        note="Trusted: Coq kernel (no axioms). Ties: the batcher model is compared with the real function on 100/600 generated operand cases inside Coq and vmap_spec with numpy; the real `_freshen_closed_jaxpr` is checked to be an injective fresh structure-preserving renaming and the four body lowerings are AST-checked; the lists come from the current source (GenAutodiff, fail closed) and the real jax.numpy functions are checked linear on integer data. The per-primitive batching/jvp/transpose rules of the ~450 plugins are NOT modelled: they are reached only by the exploration sweep (known findings listed per root cause in known_findings.d/C10.json).",
        technique="Rocq index-arithmetic proof of the shared batch rule against the definition of vmap + alpha-equivariance proof over the dispatcher model + translated allow-lists; differential ties in Coq; differential testing of transformed exports on the real exporter"),
    "C01": dict(
        category="proof",
        text="Proof (partial: ~60 exact kernels + the converter's glue; the other plugins' numerics are explored only). (a) LoweringSem.v: for EVERY jaxpr, if each equation's plugin satisfies the per-equation contract (appends nodes whose evaluation binds the outvars to the primitive's result, preserves earlier bindings), the lowered graph evaluates to the jaxpr's value on every input (induction over the equation list, drop-vars and literals included); contract shown satisfiable. (b) Kernels.v/OnnxInt.v: for 59 kernel entries with exact semantics - integer ring ops, neg/abs/sign, div/rem/floor_divide/mod/fmod, max/min/clamp/clip/relu, select_n/where, boolean and bitwise logic, the three shifts incl. saturation, comparisons, floor/ceil/round under both rounding methods, integer_pow, int/bool conversions, one_hot, dynamic_slice start clamping - theorems generic in the bit width state that the operator graph the plugin emits equals the JAX function for every in-range input; where false of the code a witness (`_refuted`), the exact domain (`_iff`/`_partial`) and a proved repair are given.",
        design_ref="DESIGN.md section 4 C01",
        note="Trusted: Coq kernel (no axioms); OnnxInt.v as the meaning of the ONNX integer/boolean operators (checked against onnxruntime on one-op models every run, D1) and jax_k as the meaning of the lax primitives (checked against eager JAX bit-exactly, D2). Tie S: the node list of the real single-primitive export is translated fail-closed to a Gallina term that Coq checks convertible to the proved `lowered_k` (320 kernel x dtype variants); D3: OnnxInt evaluation of the real export == onnxruntime. The structural half of the glue contract is probed on the real plugins for every equation lowered in the sweep. NOT proved: transcendental/conv/attention/linalg numerics, elementwise lifting/broadcasting of the kernels - explored by exporting registry testcases and running them in onnxruntime on adversarial inputs (signed zeros, half-integers, large/small) against eager JAX.",
        technique="Rocq proof of converter glue relative to a per-plugin contract + bit-width-generic kernel proofs over an ONNX integer-operator semantics; structural tie by convertibility on real exports; differential ties with onnxruntime and eager JAX; adversarial-input sweep of the registry"),
    "C03": dict(
        category="proof",
        text="Proved validator run on real exports (translation validation per export) + proof of the naming discipline: every exported model (registry testcases exported with their declared settings, hand-written nested control-flow / nested @onnx_function programs; x opset 21/23/26/27, double precision, NCHW layout flags, return_mode ir) is converted to the Onnx.v AST and wf_model is evaluated inside Coq. Coq proves wf_model m = true -> WF m (SSA per scope, def-before-use through enclosing scopes, no redefinition of enclosing-scope names, graph outputs defined, function bodies closed, call arity/definition/imports, acyclic calls) and WF m -> evaluation over uninterpreted operators, incl. all nested bodies and function bodies, never fails on a name lookup. Names.v proves over the TRANSLATED fresh_name / make_subgraph_context code that IRBuilder names are injective, IRContext names are injective exactly up to the refuted 'b'/'b_' clash, the two counter families collide (refuted), and (path, base, counter) -> name is injective at every nesting depth for '/'-free clash-free bases.",
        design_ref="DESIGN.md section 4 C03",
        note="Trusted: Coq kernel (no axioms), tools/onnx2coq.py + Onnx.v flattening (sanity-checked per model by table_ok), the GenNames extractor (validated each run against the real IRContext/IRBuilder on 100/1000 random call trees). onnx.checker(full), strict shape inference and onnxruntime are cross-checks: 51 hand-made probes show wf_model accepts exactly when checker and ORT do (3 documented conservative rejections). The programs quantifier is SAMPLED (quick ~320 / thorough ~2270 models; one-off sweep of all 3137 registry exports): the theorem is per validated model, not for every program. Side conditions of the naming theorems are evaluated on the 1718 literal bases of /repo: the cross-family condition fails for 'Constant' and 'v' (reported in coverage, not a violation; exports are additionally protected by onnx_ir's NameFixPass). ORT limits not held against exports: opset 27 unsupported, no CPU double kernels for Conv/Asin/AveragePool/QuickGelu. Known findings: CumProd/BitCast at opset 23 (C11), reduce_sum_dtype_f64 and random_bits_uint32_f64 ill-typed under double precision, TensorScatter(mode='none').",
        technique="Rocq: boolean validator with soundness + lookup-safety meta-theorem run by vm_compute on real exports; naming proofs over auto-extracted string builders; differential ties; external tool cross-checks"),
    "C08": dict(
        category="proof",
        text="Proofs about the annotation helpers + a proved checker run on real exports (translation validation per export). The helpers _dim_token, _broadcast_shape_dims, _dim_is_known, _normalize_dim, _unknown_shape_like are translated from the current source on every run; Coq proves (full strength, any number of operands, every binding of the symbols) that the merged broadcast annotation never contradicts the numpy/ONNX broadcast of the run-time shapes, and that post-processing maps every dim to itself or unknown and leaves graph inputs/outputs untouched. The soundness of _refresh_elementwise_output_shape is refuted for the pre-repair pass (one-element constants of any rank were skipped: Add(x:[3], c:[1,1]) re-annotated [3]), proved under the exact rank hypothesis (shown necessary) and at full strength for the repaired pass; the harness probes which model is in force. Every annotated value of a spread of real exports (top-level graph, function bodies stand-alone, Loop bodies at depth 1) is observed in onnxruntime on several bindings of the symbolic dims: dtype, rank, every declared concrete dim and every declared symbol are compared; annot_consistent (proved sound) runs inside Coq on the converted exports; the real postprocess_ir_model is wrapped to compare all annotations before/after.",
        design_ref="DESIGN.md section 4 C08",
        note="Trusted: Coq kernel (no axioms); the dedicated extractor tools/units/c08_units.py (generic control flow + per-function expression table, fails closed) and its PRELUDE, validated each run against the running Python on every dim-kind pair of shapes up to rank 2, rank-1 triples and random rank<=3 tuples; hand models refresh/loosen/is_scalar_const tied differentially on small onnx_ir graphs; onnx2coq; onnxruntime 1.30 CPU as run-time reference; the transcription of the ONNX shape rules in Annot.rule_on. The programs quantifier is SAMPLED for the per-export part. Not observed at run time: If/Scan bodies and nesting deeper than one Loop; the dtype side of _copy_shape_dtype/_maybe_promote_value_to_double is validated at run time only. Known findings: JAX2ONNX_DYNAMIC_DIM_SENTINEL used as one dim_param for different data-dependent extents, explicit float32 cast under enable_double_precision (output declared DOUBLE, computed FLOAT). Full-registry scan (3169 exports, 62k values) found nothing else.",
        technique="Rocq proofs over auto-translated annotation helpers (dedicated AST->Gallina extractor) + proved boolean checker run by vm_compute on real exports + onnxruntime observation of every annotated value under several symbol bindings + before/after snapshots of the real post-processing"),
    "C11": dict(
        category="proof",
        text="Proved validator run on real exports at every opset (translation validation per export) + finite proofs over translated code: the operator schemas of the INSTALLED onnx (all versions) are dumped as data on every run; "
             "Opset.opset_ok (Gallina) checks every node of every graph/nested body/function body of a converted real export: domain imported, the schema selected by the declared opset "
             "(greatest since_version <= opset) exists, is not deprecated, arity in range, attribute names among the schema's, function calls fit the function signature, function imports agree with the model; "
             "Coq proves opset_ok sound against the declarative node_conforms (incl. reachability of nested bodies). For opsets 21..27 real exports (registry spread + nested control-flow/function programs + opset-sensitive programs) "
             "are evaluated inside Coq by vm_compute, cross-checked by onnx.checker(full_check), onnxruntime load and numeric agreement with the default-opset export. Finite proofs over code translated from /repo each run: "
             "for every opset in [13,27] and all 10 reductions the `opset < since` branch picks exactly the axes form the schema has and the emitted node fits it; the Swish rewrite guard is sound and exact w.r.t. the schema table. "
             "Opsets 13..20 are explored (thorough) and reported without a claim.",
        design_ref="DESIGN.md section 4 C11",
        note="Trusted: Coq kernel (no axioms), the onnx.defs dump (data), tools/onnx2coq.py + Onnx.v (converter; payloads/value_info dropped), AST extraction of the reduction table/branch and Swish guard (fail closed). "
             "The programs quantifier is SAMPLED for the per-export part. Arity = list lengths; per-position optionality, types and attribute values are left to onnx.checker/ORT cross-checks; numerics tested on one seeded input per program with ORT graph optimisations off "
             "(ORT 1.30 loads opsets <= 26). The Coq verdict is compared per model with an independent python recomputation over onnx.defs. "
             "Known findings (unchanged tree): CumProd and BitCast (both introduced in opset 26) are emitted at every requested opset 21..25 without an error (10 keys opset-missing-op:{CumProd,BitCast}@{21..25}); "
             "whole-registry survey (3137 cases at opsets 21/24/27) shows no other schema-level violation.",
        technique="Rocq: proved boolean validator over a model AST, run by vm_compute on real exports at every opset; finite vm_compute proofs lifted with forallb_forall over tables translated from source and dumped from the installed library; onnx.checker / onnxruntime cross-checks"),
}

NOT_YET = {}


def main():
    checks = []
    for pid in ALL:
        if pid not in CHECKS:
            continue
        c = CHECKS[pid]
        checks.append({
            "property_id": pid,
            "quick_cmd": f"./check {pid} --tier quick",
            "thorough_cmd": f"./check {pid} --tier thorough",
            "evidence_file": f"/verif/evidence/{pid}.json",
            "replay_cmd_template": f"./check {pid} --replay {{path}}",
            "engine": "coq-j2o",
            "level_claimed": {"category": c["category"], "text": c["text"], "design_ref": c["design_ref"]},
            "level_note": c["note"],
            "technique": c["technique"],
        })
    na = [{"property_id": p, "reason": NOT_YET.get(p, "check not built yet in this development (work in progress; see DESIGN.md section 4 for the planned model)")}
          for p in ALL if p not in CHECKS]
    m = {
        "version": 1,
        "setup_cmd": "./check --setup",
        "hooks": {"guard": "JAX2ONNX_VERIF", "enable": "no source hooks: the harness sets JAX2ONNX_VERIF=1 and wraps registries in its own process only",
                  "baseline_off_cmd": "cd /repo && env -u JAX2ONNX_VERIF /venv/bin/python -m pytest -q -p no:cacheprovider --timeout=900 --continue-on-collection-errors",
                  "source_commits": [], "add_only": True},
        "engines": [{"name": "coq-j2o", "path": "/verif/coq", "serves_properties": sorted(CHECKS),
                     "kind_free_text": "Coq 8.16.1 development: hand-written models + proofs (theories/), code regenerated from /repo by tools/py2coq.py (gen/), property statements (props/); harness/*.py runs ties and searches"}],
        "checks": checks,
        "notes": "Technique family: machine-checked proof in Rocq/Coq. See DESIGN.md.",
        "not_applicable": na,
    }
    json.dump(m, open(os.path.join(VERIF, "MANIFEST.json"), "w"), indent=1)


if __name__ == "__main__":
    main()
