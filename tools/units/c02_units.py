"""regen unit for C02 (pipeline theorem): the optimizer pass TABLE of ir_optimizations._OPTIMIZER_PASSES:
for every entry, in order, (label, name of the function that runs, runs on function bodies?).
_model_pass(label, f)                       -> (label, f, false)    model passes do not run on function bodies
_graph_pass(label, f)                       -> (label, f, true)
_graph_pass(label, f, function_bodies=B)    -> (label, f, B)
Anything else fails closed."""
import ast
import os
import py2coq

REPO = os.environ.get("VERIF_REPO", "/repo")
OPT = f"{REPO}/jax2onnx/converter/ir_optimizations.py"


class Unsupported(Exception):
    pass


def unit_GenOptPasses():
    tree = ast.parse(open(OPT).read())
    # the two constructors must still mean what the table reader assumes
    src = {n.name: ast.unparse(n) for n in tree.body if isinstance(n, ast.FunctionDef) and n.name in ("_model_pass", "_graph_pass")}
    if "model_runner=runner" not in src.get("_model_pass", "") or "function_graph_runner" in src.get("_model_pass", ""):
        raise Unsupported("_model_pass no longer builds a model-only pass")
    if "function_graph_runner=runner if function_bodies else None" not in src.get("_graph_pass", "") \
            or "function_bodies: bool=True" not in src.get("_graph_pass", ""):
        raise Unsupported("_graph_pass changed shape")
    rows = None
    for n in tree.body:
        tgt = n.target if isinstance(n, ast.AnnAssign) else (n.targets[0] if isinstance(n, ast.Assign) else None)
        if isinstance(tgt, ast.Name) and tgt.id == "_OPTIMIZER_PASSES":
            rows = []
            for call in n.value.elts:
                if not (isinstance(call, ast.Call) and isinstance(call.func, ast.Name) and call.func.id in ("_model_pass", "_graph_pass")
                        and len(call.args) == 2 and isinstance(call.args[0], ast.Constant) and isinstance(call.args[1], ast.Name)):
                    raise Unsupported("_OPTIMIZER_PASSES: unexpected entry " + ast.unparse(call)[:80])
                fb = call.func.id == "_graph_pass"
                for kw in call.keywords:
                    if call.func.id == "_graph_pass" and kw.arg == "function_bodies" and isinstance(kw.value, ast.Constant) \
                            and isinstance(kw.value.value, bool):
                        fb = kw.value.value
                    else:
                        raise Unsupported("_OPTIMIZER_PASSES: unexpected keyword in " + ast.unparse(call)[:80])
                rows.append((call.args[0].value, call.args[1].id, fb))
    if rows is None:
        raise Unsupported("_OPTIMIZER_PASSES not found")
    # optimize_graph must still run the table twice: top graph, then every function body with the function runner
    og = [n for n in tree.body if isinstance(n, ast.FunctionDef) and n.name == "optimize_graph"]
    if not og:
        raise Unsupported("optimize_graph not found")
    body = ast.unparse(og[0])
    if body.count("for opt_pass in _OPTIMIZER_PASSES") != 2 or "_run_top_level_optimizer_pass(opt_pass, ir_model)" not in body \
            or "_run_function_optimizer_pass(opt_pass, fgr)" not in body:
        raise Unsupported("optimize_graph no longer iterates _OPTIMIZER_PASSES twice (top graph, function bodies)")
    items = "; ".join(f"({py2coq.coq_string(a)}, ({py2coq.coq_string(b)}, {'true' if c else 'false'}))" for a, b, c in rows)
    return (py2coq.HEADER +
            "From Coq Require Import String List Bool.\nImport ListNotations.\n"
            "(* (label, (function that runs, runs on function bodies)) in the order of _OPTIMIZER_PASSES *)\n"
            f"Definition OPTIMIZER_PASS_TABLE : list (string * (string * bool)) := [{items}].\n")


UNITS = {"GenOptPasses": unit_GenOptPasses}
