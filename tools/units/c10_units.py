"""Regen unit GenAutodiff (property C10): the autodiff policy lists of
jax2onnx/plugins/jax/_autodiff_utils.py, the list of plugin modules that register the shared broadcasting
batch rule, and shape checks of the code the hand-written models (theories/Batch.v, theories/Linear.v) image.
Everything is read from the CURRENT /repo working tree and fails closed (py2coq.Unsupported)."""
import ast
import os
import sys

HERE = os.path.dirname(os.path.abspath(__file__))
sys.path.insert(0, os.path.dirname(HERE))
import py2coq  # noqa: E402
from py2coq import Unsupported  # noqa: E402

REPO = os.environ.get("VERIF_REPO", "/repo")
AD = f"{REPO}/jax2onnx/plugins/jax/_autodiff_utils.py"
BU = f"{REPO}/jax2onnx/plugins/jax/_batching_utils.py"
PLUGINS = f"{REPO}/jax2onnx/plugins"


def _assign(tree, name):
    for n in tree.body:
        if isinstance(n, ast.Assign) and len(n.targets) == 1 and isinstance(n.targets[0], ast.Name) and n.targets[0].id == name:
            return n.value, n.lineno
        if isinstance(n, ast.AnnAssign) and isinstance(n.target, ast.Name) and n.target.id == name and n.value is not None:
            return n.value, n.lineno
    raise Unsupported(f"{AD}: missing constant {name}")


def _pair_set(tree, name):
    val, lineno = _assign(tree, name)
    if isinstance(val, ast.Call) and ast.unparse(val.func) in ("set", "frozenset") and len(val.args) == 1:
        val = val.args[0]
    if not isinstance(val, (ast.Set, ast.List, ast.Tuple)) or not val.elts:
        raise Unsupported(f"{AD}:{name}: expected a non-empty literal set of string pairs")
    pairs = []
    for e in val.elts:
        if not (isinstance(e, ast.Tuple) and len(e.elts) == 2 and
                all(isinstance(x, ast.Constant) and isinstance(x.value, str) for x in e.elts)):
            raise Unsupported(f"{AD}:{name}: unsupported element {ast.unparse(e)[:60]}")
        pairs.append((e.elts[0].value, e.elts[1].value))
    pairs = sorted(set(pairs))
    txt = "[" + "; ".join(f"({py2coq.coq_string(a)}, {py2coq.coq_string(b)})" for a, b in pairs) + "]"
    return f"(* {AD}:{lineno} {name} *)\nDefinition {py2coq.coq_name(name)} : list (string * string) := {txt}.\n"


def _func(tree, name, path):
    for n in tree.body:
        if isinstance(n, ast.FunctionDef) and n.name == name:
            body = [s for s in n.body if not (isinstance(s, ast.Expr) and isinstance(s.value, ast.Constant))]
            return n, [ast.unparse(s) for s in body]
    raise Unsupported(f"{path}: missing function {name}")


# the statements of broadcast_batcher_compat that theories/Batch.v `batcher_with` images (the helper
# _handle_scalar_broadcasting is a parameter of the model: both variants are modelled)
BATCHER_BODY = [
    "if len(args) <= 1:\n    raise ValueError('broadcast_batcher_compat requires at least two arguments')",
    "shape, dim = next(((x.shape, d) for x, d in zip(args, dims) if d is not NOT_MAPPED))",
    "if all((definitely_equal_shape(shape, x.shape) and d == dim for x, d in zip(args, dims) if np.ndim(x))):\n"
    "    out = prim.bind(*args, **params)\n"
    "    return (out, (dim,) * len(out)) if prim.multiple_results else (out, dim)",
    "args = [batching.bdim_at_front(x, d, 1) if np.ndim(x) else x for x, d in zip(args, dims)]",
    "ndim = max((np.ndim(x) for x in args))",
    "args = [_handle_scalar_broadcasting(ndim, x, d) for x, d in zip(args, dims)]",
    "out = prim.bind(*args, **params)",
    "return (out, (0,) * len(out)) if prim.multiple_results else (out, 0)",
]
# _handle_scalar_broadcasting: the current code (commit c32db30) inserts the new unit axes right AFTER the batch axis
# (Batch.handle_scalar_broadcasting_fixed); the historical helper appended them at the END (Batch.handle_scalar_broadcasting)
HSB_AFTER_BATCH = [
    "if dim is NOT_MAPPED or ndim == np.ndim(x):\n    return x",
    "return lax.expand_dims(x, tuple(range(1, 1 + ndim - np.ndim(x))))",
]
HSB_AT_END = [
    "if dim is NOT_MAPPED or ndim == np.ndim(x):\n    return x",
    "return lax.expand_dims(x, tuple(range(np.ndim(x), ndim)))",
]
SHOULD_REGISTER = [
    "if requested is None:\n    return prim.name in _LINEAR_TRANSPOSE_FALLBACK_ALLOWLIST",
    "return requested",
]


def _batcher_users():
    """plugin modules (path relative to jax2onnx/plugins, without .py) that call broadcast_batcher_compat"""
    users = []
    for root, _dirs, files in os.walk(PLUGINS):
        for f in sorted(files):
            if not f.endswith(".py"):
                continue
            p = os.path.join(root, f)
            if os.path.abspath(p) == os.path.abspath(BU):
                continue
            src = open(p).read()
            if "broadcast_batcher_compat" not in src:
                continue
            tree = ast.parse(src)
            calls = [n for n in ast.walk(tree) if isinstance(n, ast.Call) and
                     ast.unparse(n.func).split(".")[-1] == "broadcast_batcher_compat"]
            if calls:
                users.append(os.path.relpath(p, PLUGINS)[:-3])
    if not users:
        raise Unsupported("no plugin calls broadcast_batcher_compat any more: the batcher model has no user")
    return sorted(users)


def unit_GenAutodiff():
    ctxt, _ = py2coq.translate_constants(AD, ["_LINEAR_TRANSPOSE_FALLBACK_ALLOWLIST"])
    tree = ast.parse(open(AD).read())
    out = [ctxt, _pair_set(tree, "_ORIGINAL_RULE_FORWARDING_ALLOWLIST"),
           _pair_set(tree, "_ORIGINAL_RULE_FORWARDING_BLOCKLIST")]
    _, body = _func(tree, "_should_register_transpose", AD)
    if body != SHOULD_REGISTER:
        raise Unsupported("_should_register_transpose changed shape: " + repr(body))
    out.append("(* _should_register_transpose(prim, None) = prim.name in _LINEAR_TRANSPOSE_FALLBACK_ALLOWLIST (AST checked) *)\n"
               "Definition should_register_transpose (name : string) (requested : option bool) : bool :=\n"
               "  match requested with None => str_in name LINEAR_TRANSPOSE_FALLBACK_ALLOWLIST | Some b => b end.\n")
    btree = ast.parse(open(BU).read())
    _, bbody = _func(btree, "broadcast_batcher_compat", BU)
    if bbody != BATCHER_BODY:
        raise Unsupported("broadcast_batcher_compat changed shape (theories/Batch.v batcher_with no longer images it): " + repr(bbody))
    _, hbody = _func(btree, "_handle_scalar_broadcasting", BU)
    out.append("(* broadcast_batcher_compat has the statement list imaged by Batch.batcher_with (AST checked) *)\n"
               "Definition batcher_shape_checked : bool := true.\n")
    variant = "after_batch" if hbody == HSB_AFTER_BATCH else ("at_end" if hbody == HSB_AT_END else "unknown")
    out.append("(* which of the two modelled helpers _handle_scalar_broadcasting textually is (AST): after_batch = the current code\n"
               "   (Batch.batcher_fixed), at_end = the historical helper (Batch.batcher); the harness ties behaviour to Batch.batcher_fixed *)\n"
               f"Definition hsb_source_variant : string := {py2coq.coq_string(variant)}.\n")
    users = _batcher_users()
    out.append("(* plugin modules that register the shared broadcasting batch rule (AST scan of jax2onnx/plugins) *)\n"
               "Definition BATCHER_USERS : list string := [" + "; ".join(py2coq.coq_string(u) for u in users) + "].\n")
    return py2coq.HEADER + "\n".join(out)


UNITS = {"GenAutodiff": unit_GenAutodiff}
