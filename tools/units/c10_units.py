"""Regen unit GenAutodiff (property C10): the autodiff policy lists of
jax2onnx/plugins/jax/_autodiff_utils.py, the list of plugin modules that register the shared broadcasting
batch rule, and shape checks of the code the hand-written models (theories/Batch.v, theories/Linear.v) image.
Everything is read from the CURRENT /repo working tree and fails closed (py2coq.Unsupported)."""
import ast
import os
import re
import sys

HERE = os.path.dirname(os.path.abspath(__file__))
sys.path.insert(0, os.path.dirname(HERE))
import py2coq  # noqa: E402
from py2coq import Unsupported  # noqa: E402

REPO = os.environ.get("VERIF_REPO", "/repo")
AD = f"{REPO}/jax2onnx/plugins/jax/_autodiff_utils.py"
BU = f"{REPO}/jax2onnx/plugins/jax/_batching_utils.py"
PLUGINS = f"{REPO}/jax2onnx/plugins"


def _assign(tree, name):
    for n in tree.body:
        if isinstance(n, ast.Assign) and len(n.targets) == 1 and isinstance(n.targets[0], ast.Name) and n.targets[0].id == name:
            return n.value, n.lineno
        if isinstance(n, ast.AnnAssign) and isinstance(n.target, ast.Name) and n.target.id == name and n.value is not None:
            return n.value, n.lineno
    raise Unsupported(f"{AD}: missing constant {name}")


def _pair_set(tree, name):
    val, lineno = _assign(tree, name)
    if isinstance(val, ast.Call) and ast.unparse(val.func) in ("set", "frozenset") and len(val.args) == 1:
        val = val.args[0]
    if not isinstance(val, (ast.Set, ast.List, ast.Tuple)) or not val.elts:
        raise Unsupported(f"{AD}:{name}: expected a non-empty literal set of string pairs")
    pairs = []
    for e in val.elts:
        if not (isinstance(e, ast.Tuple) and len(e.elts) == 2 and
                all(isinstance(x, ast.Constant) and isinstance(x.value, str) for x in e.elts)):
            raise Unsupported(f"{AD}:{name}: unsupported element {ast.unparse(e)[:60]}")
        pairs.append((e.elts[0].value, e.elts[1].value))
    pairs = sorted(set(pairs))
    txt = "[" + "; ".join(f"({py2coq.coq_string(a)}, {py2coq.coq_string(b)})" for a, b in pairs) + "]"
    return f"(* {AD}:{lineno} {name} *)\nDefinition {py2coq.coq_name(name)} : list (string * string) := {txt}.\n"


def _func(tree, name, path):
    for n in tree.body:
        if isinstance(n, ast.FunctionDef) and n.name == name:
            body = [s for s in n.body if not (isinstance(s, ast.Expr) and isinstance(s.value, ast.Constant))]
            return n, [ast.unparse(s) for s in body]
    raise Unsupported(f"{path}: missing function {name}")


# the statements of broadcast_batcher_compat that theories/Batch.v `batcher_with` images (the helper
# _handle_scalar_broadcasting is a parameter of the model: both variants are modelled)
BATCHER_BODY = [
    "if len(args) <= 1:\n    raise ValueError('broadcast_batcher_compat requires at least two arguments')",
    "shape, dim = next(((x.shape, d) for x, d in zip(args, dims) if d is not NOT_MAPPED))",
    "if all((definitely_equal_shape(shape, x.shape) and d == dim for x, d in zip(args, dims) if np.ndim(x))):\n"
    "    out = prim.bind(*args, **params)\n"
    "    return (out, (dim,) * len(out)) if prim.multiple_results else (out, dim)",
    "args = [batching.bdim_at_front(x, d, 1) if np.ndim(x) else x for x, d in zip(args, dims)]",
    "ndim = max((np.ndim(x) for x in args))",
    "args = [_handle_scalar_broadcasting(ndim, x, d) for x, d in zip(args, dims)]",
    "out = prim.bind(*args, **params)",
    "return (out, (0,) * len(out)) if prim.multiple_results else (out, 0)",
]
# _handle_scalar_broadcasting: the current code (commit c32db30) inserts the new unit axes right AFTER the batch axis
# (Batch.handle_scalar_broadcasting_fixed); the historical helper appended them at the END (Batch.handle_scalar_broadcasting)
HSB_AFTER_BATCH = [
    "if dim is NOT_MAPPED or ndim == np.ndim(x):\n    return x",
    "return lax.expand_dims(x, tuple(range(1, 1 + ndim - np.ndim(x))))",
]
HSB_AT_END = [
    "if dim is NOT_MAPPED or ndim == np.ndim(x):\n    return x",
    "return lax.expand_dims(x, tuple(range(np.ndim(x), ndim)))",
]
SHOULD_REGISTER = [
    "if requested is None:\n    return prim.name in _LINEAR_TRANSPOSE_FALLBACK_ALLOWLIST",
    "return requested",
]


def _batcher_users():
    """plugin modules (path relative to jax2onnx/plugins, without .py) that call broadcast_batcher_compat"""
    users = []
    for root, _dirs, files in os.walk(PLUGINS):
        for f in sorted(files):
            if not f.endswith(".py"):
                continue
            p = os.path.join(root, f)
            if os.path.abspath(p) == os.path.abspath(BU):
                continue
            src = open(p).read()
            if "broadcast_batcher_compat" not in src:
                continue
            tree = ast.parse(src)
            calls = [n for n in ast.walk(tree) if isinstance(n, ast.Call) and
                     ast.unparse(n.func).split(".")[-1] == "broadcast_batcher_compat"]
            if calls:
                users.append(os.path.relpath(p, PLUGINS)[:-3])
    if not users:
        raise Unsupported("no plugin calls broadcast_batcher_compat any more: the batcher model has no user")
    return sorted(users)


HELPER_MODULES = {"jax/_autodiff_utils", "jax/_batching_utils", "jax/_batching_compat", "jax/nn/_builder_utils", "jax/numpy/_unary_utils",
                  "jax/numpy/_reduction_utils", "plugin_system"}
# user-level jax.custom_jvp / custom_vjp demo functions of the testcases (not rules of a substitute primitive)
CUSTOM_DEMO_MODULES = {"jax/core/custom_jvp_call", "jax/core/custom_vjp_call"}
RULE_TABLES = ("primitive_jvps", "primitive_transposes", "primitive_batchers", "fancy_primitive_batchers", "axis_primitive_batchers")


def _rule_inventory():
    """AST scan of every plugin module: which transformation rules it registers for its substitute primitive, and how.
    Fails closed: every textual mention of a rule table / registration helper must be one of the recognised idioms."""
    inv = {k: set() for k in ("jvp_hand", "jvp_derived", "forwarded", "transpose_hand", "batch_shared_broadcast", "batch_shared_unary",
                              "batch_forwarded_reduce", "batch_derived_vmap", "batch_hand")}
    helpers = {"register_jvp_rule": "jvp_hand", "register_fallback_jvp_rule": "jvp_hand",          # fallback = impl applied to tangents: own claim of linearity
               "register_jvp_via_jax_jvp": "jvp_derived",
               "register_allowlisted_original_rule_forwarding": "forwarded", "register_original_rule_forwarding": "forwarded",
               "register_unary_elementwise_batch_rule": "batch_shared_unary", "register_reduction_batch_rule": "batch_forwarded_reduce"}
    for root, _dirs, files in os.walk(PLUGINS):
        for f in sorted(files):
            if not f.endswith(".py"):
                continue
            p = os.path.join(root, f)
            mod = os.path.relpath(p, PLUGINS)[:-3]
            src = open(p).read()
            if not any(t in src for t in RULE_TABLES) and not any(h in src for h in helpers) and "defjvp" not in src:
                continue
            if mod in HELPER_MODULES:
                continue
            tree = ast.parse(src)
            funcs = {n.name: n for n in ast.walk(tree) if isinstance(n, ast.FunctionDef)}
            seen_tables = 0
            for n in ast.walk(tree):
                if isinstance(n, ast.Assign) and len(n.targets) == 1 and isinstance(n.targets[0], ast.Subscript):
                    tgt = ast.unparse(n.targets[0].value)
                    tab = tgt.split(".")[-1]
                    if tab not in RULE_TABLES:
                        continue
                    seen_tables += 1
                    if tab == "primitive_jvps":
                        inv["jvp_hand"].add(mod)
                    elif tab == "primitive_transposes":
                        inv["transpose_hand"].add(mod)
                    else:
                        rule = n.value
                        body = None
                        if isinstance(rule, ast.Name) and rule.id in funcs:
                            body = ast.unparse(funcs[rule.id])
                        elif isinstance(rule, ast.Lambda):
                            body = ast.unparse(rule)
                        if body is None:
                            inv["batch_hand"].add(mod)
                        elif "broadcast_batcher_compat(" in body:
                            inv["batch_shared_broadcast"].add(mod)
                        elif "jax.vmap(" in body or "vmap(" in body:
                            inv["batch_derived_vmap"].add(mod)
                        else:
                            inv["batch_hand"].add(mod)
                elif isinstance(n, ast.Call):
                    fn = ast.unparse(n.func).split(".")[-1]
                    if fn in helpers:
                        inv[helpers[fn]].add(mod)
                    elif fn in ("defjvp", "defjvps", "defvjp") and mod not in CUSTOM_DEMO_MODULES:
                        raise Unsupported(f"{mod}: custom_jvp/custom_vjp rule definition outside the known demo modules")
            # every textual table mention must be an assignment we classified (reads such as `x in ad.primitive_jvps` do not occur in plugins)
            mentions = sum(len(re.findall(r"\b" + t + r"\[", src)) for t in RULE_TABLES)
            if mentions != seen_tables:
                raise Unsupported(f"{mod}: {mentions} rule-table subscripts in the source but {seen_tables} recognised assignments")
    return {k: sorted(v) for k, v in inv.items()}


# register_jvp_via_jax_jvp: the generic JVP behind the "derived" rules must be exactly: jax.jvp of the wrapped original
# implementation with ALL primals and ALL tangents (symbolic zeros instantiated) -- no stop_gradient, no closure over operands
DERIVED_JVP_HELPER = [
    "def _jvp_rule(primals: tuple[Any, ...], tangents: tuple[Any, ...], **params: Any) -> tuple[Any, Any]:\n"
    "    tangent_args = tuple((ad.instantiate_zeros(t) for t in tangents))\n\n"
    "    def _wrapped(*xs: Any) -> Any:\n        return impl(*xs, **params)\n"
    "    return cast(tuple[Any, Any], jax.jvp(_wrapped, primals, tangent_args))",
    "ad.primitive_jvps[prim] = _jvp_rule",
    "if _should_register_transpose(prim, register_transpose):\n    register_transpose_via_linear_transpose(prim, impl, override=transpose_override)",
]


def unit_GenAutodiff():
    ctxt, _ = py2coq.translate_constants(AD, ["_LINEAR_TRANSPOSE_FALLBACK_ALLOWLIST"])
    tree = ast.parse(open(AD).read())
    out = [ctxt, _pair_set(tree, "_ORIGINAL_RULE_FORWARDING_ALLOWLIST"),
           _pair_set(tree, "_ORIGINAL_RULE_FORWARDING_BLOCKLIST")]
    _, body = _func(tree, "_should_register_transpose", AD)
    if body != SHOULD_REGISTER:
        raise Unsupported("_should_register_transpose changed shape: " + repr(body))
    out.append("(* _should_register_transpose(prim, None) = prim.name in _LINEAR_TRANSPOSE_FALLBACK_ALLOWLIST (AST checked) *)\n"
               "Definition should_register_transpose (name : string) (requested : option bool) : bool :=\n"
               "  match requested with None => str_in name LINEAR_TRANSPOSE_FALLBACK_ALLOWLIST | Some b => b end.\n")
    btree = ast.parse(open(BU).read())
    _, bbody = _func(btree, "broadcast_batcher_compat", BU)
    if bbody != BATCHER_BODY:
        raise Unsupported("broadcast_batcher_compat changed shape (theories/Batch.v batcher_with no longer images it): " + repr(bbody))
    _, hbody = _func(btree, "_handle_scalar_broadcasting", BU)
    out.append("(* broadcast_batcher_compat has the statement list imaged by Batch.batcher_with (AST checked) *)\n"
               "Definition batcher_shape_checked : bool := true.\n")
    variant = "after_batch" if hbody == HSB_AFTER_BATCH else ("at_end" if hbody == HSB_AT_END else "unknown")
    out.append("(* which of the two modelled helpers _handle_scalar_broadcasting textually is (AST): after_batch = the current code\n"
               "   (Batch.batcher_fixed), at_end = the historical helper (Batch.batcher); the harness ties behaviour to Batch.batcher_fixed *)\n"
               f"Definition hsb_source_variant : string := {py2coq.coq_string(variant)}.\n")
    users = _batcher_users()
    out.append("(* plugin modules that register the shared broadcasting batch rule (AST scan of jax2onnx/plugins) *)\n"
               "Definition BATCHER_USERS : list string := [" + "; ".join(py2coq.coq_string(u) for u in users) + "].\n")
    _, jbody = _func(tree, "register_jvp_via_jax_jvp", AD)
    if jbody != DERIVED_JVP_HELPER:
        raise Unsupported("register_jvp_via_jax_jvp is no longer `jax.jvp(wrapped original impl, ALL primals, ALL instantiated tangents)`: "
                          "the derived JVP rules are not JAX's own rule of the original any more: " + repr(jbody)[:400])
    if "stop_gradient" in open(AD).read():
        raise Unsupported("_autodiff_utils.py mentions stop_gradient: a derived rule must not cut derivatives")
    out.append("(* register_jvp_via_jax_jvp is jax.jvp of the wrapped original impl on ALL primals and ALL instantiated tangents (AST checked) *)\n"
               "Definition derived_jvp_helper_shape_checked : bool := true.\n")
    inv = _rule_inventory()
    names = {"jvp_hand": "HANDWRITTEN_JVP_PLUGINS", "jvp_derived": "DERIVED_JVP_PLUGINS", "forwarded": "FORWARDED_RULE_PLUGINS",
             "transpose_hand": "HANDWRITTEN_TRANSPOSE_PLUGINS", "batch_shared_broadcast": "BATCH_SHARED_BROADCAST_PLUGINS",
             "batch_shared_unary": "BATCH_SHARED_UNARY_PLUGINS", "batch_forwarded_reduce": "BATCH_FORWARDED_REDUCE_PLUGINS",
             "batch_derived_vmap": "BATCH_DERIVED_VMAP_PLUGINS", "batch_hand": "BATCH_HANDWRITTEN_PLUGINS"}
    out.append("(* inventory (AST scan, fail closed) of the transformation rules the plugins register for their substitute primitives:\n"
               "   hand-written JVP / transpose rules need their own boundary tests; rules derived from the original implementation\n"
               "   (jax.jvp / jax.vmap of the original) or forwarded from the jax.lax primitive are JAX's own rules *)")
    for k, nm in names.items():
        out.append(f"Definition {nm} : list string := [" + "; ".join(py2coq.coq_string(u) for u in inv[k]) + "].\n")
    return py2coq.HEADER + "\n".join(out)


UNITS = {"GenAutodiff": unit_GenAutodiff}
