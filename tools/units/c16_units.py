"""regen unit for C16: the optimizer failure policy decision"""
import os
import py2coq

REPO = os.environ.get("VERIF_REPO", "/repo")
CONV = f"{REPO}/jax2onnx/converter/conversion_api.py"


def unit_GenPolicy():
    # _env_flag_enabled(name): value = os.getenv(name) ; <decision on value>   -> function of the env value
    sub = {"_env_flag_enabled": ("value = os.getenv(name)", [("value", "Optional[str]")], "bool", "env_flag_value_enabled")}
    txt, _ = py2coq.translate_functions(CONV, ["_env_flag_enabled"], sub=sub)
    # _resolve_strict_optimizer_failures(strict): `if strict is not None: return strict; return _env_flag_enabled(ENV)`
    import ast
    tree = ast.parse(open(CONV).read())
    fn = py2coq.find_functions(tree).get("_resolve_strict_optimizer_failures")
    if fn is None:
        raise py2coq.Unsupported("missing _resolve_strict_optimizer_failures")
    body = [s for s in fn.body if not (isinstance(s, ast.Expr) and isinstance(s.value, ast.Constant))]
    want = ["if strict_optimizer_failures is not None:\n    return strict_optimizer_failures",
            "return _env_flag_enabled(_STRICT_OPTIMIZER_FAILURES_ENV)"]
    if [ast.unparse(s) for s in body] != want:
        raise py2coq.Unsupported("_resolve_strict_optimizer_failures changed shape: " + repr([ast.unparse(s) for s in body]))
    txt += ("\n(* conversion_api._resolve_strict_optimizer_failures (shape checked against the AST) *)\n"
            "Definition resolve_strict (strict_arg : option bool) (env_value : option string) : option bool :=\n"
            " match strict_arg with Some b => Some b | None => env_flag_value_enabled env_value end.\n")
    # _optimize_graph_with_failure_policy, two accepted shapes (anything else fails closed):
    #  (old)  try: optimize_graph(model) except Exception: if resolve(...): raise; log         -> returns the completed PREFIX
    #  (new)  strict = resolve(...); backup = None; if not strict: try: backup = model.clone() ...;
    #         try: optimize_graph(model) except Exception: if strict: raise; log; if backup is not None: <restore graph+functions>
    #                                                                                              -> returns the INPUT model
    fp = py2coq.find_functions(tree).get("_optimize_graph_with_failure_policy")
    if fp is None:
        raise py2coq.Unsupported("missing _optimize_graph_with_failure_policy")
    stmts = [s for s in fp.body if not (isinstance(s, ast.Expr) and isinstance(s.value, ast.Constant))]
    old_ok = (len(stmts) == 1 and isinstance(stmts[0], ast.Try) and ast.unparse(stmts[0].body[0]) == "optimize_graph(model)"
              and len(stmts[0].handlers) == 1 and ast.unparse(stmts[0].handlers[0].type) == "Exception"
              and ast.unparse(stmts[0].handlers[0].body[0]).startswith("if _resolve_strict_optimizer_failures(strict_optimizer_failures):\n    raise")
              and not stmts[0].finalbody and not stmts[0].orelse)
    new_ok = False
    if len(stmts) == 4 and isinstance(stmts[3], ast.Try):
        t = stmts[3]
        h = t.handlers[0] if len(t.handlers) == 1 else None
        new_ok = (ast.unparse(stmts[0]) == "strict = _resolve_strict_optimizer_failures(strict_optimizer_failures)"
                  and ast.unparse(stmts[1]) in ("backup: Optional[ir.Model] = None", "backup = None")
                  and ast.unparse(stmts[2]) == "if not strict:\n    try:\n        backup = model.clone()\n    except Exception:\n        backup = None"
                  and [ast.unparse(x) for x in t.body] == ["optimize_graph(model)"] and not t.finalbody and not t.orelse
                  and h is not None and ast.unparse(h.type) == "Exception"
                  and [ast.unparse(x) for x in h.body] == [
                      "if strict:\n    raise", "_log_nonfatal_stage_failure('optimize_graph', exc)",
                      "if backup is not None:\n    model.graph = backup.graph\n    model.functions.clear()\n    model.functions.update(backup.functions)"])
    if not (old_ok or new_ok):
        raise py2coq.Unsupported("_optimize_graph_with_failure_policy changed shape")
    txt += "\nDefinition failure_policy_shape_checked : bool := true.\n"
    txt += ("(* on a non-fatal optimizer failure the code restores the un-optimised model (true) / keeps the partially optimised one (false) *)\n"
            f"Definition failure_policy_restores_input : bool := {'true' if new_ok else 'false'}.\n")
    return py2coq.HEADER + txt


UNITS = {"GenPolicy": unit_GenPolicy}
