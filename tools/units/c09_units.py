"""Regen unit GenPrecision (property C09): the float-precision policy of the converter, translated from the
CURRENT /repo source into Gallina over a finite enumeration of numpy dtypes.

  * the numpy/onnx_ir library answers the policy code consults (np.issubdtype, ir.DataType.from_numpy) are dumped
    as tables (data, like gen/LibTables.v);
  * the policy functions are translated with tools/py2coq (class Tr), extended HERE (subclass, py2coq.py itself is
    untouched) by the handful of numpy-dtype expressions they use; an array is abstracted to its dtype
    (`arr.dtype` = the abstraction, `arr.astype(T)` = T);
  * pieces living inside big functions (`IRBuilder.add_initializer_from_scalar`, `_bind_closed_jaxpr_constants`) and the
    two jax_enable_x64 context managers are picked out by dedicated AST extractors that check the expected shape.

Everything fails closed with py2coq.Unsupported."""
import ast
import os
import sys

HERE = os.path.dirname(os.path.abspath(__file__))
sys.path.insert(0, os.path.dirname(HERE))
import py2coq  # noqa: E402
from py2coq import Unsupported, T, B, DT, NONE, NPDT, Opt  # noqa: E402

REPO = os.environ.get("VERIF_REPO", "/repo")
IR_UTILS = f"{REPO}/jax2onnx/ir_utils.py"
CONV = f"{REPO}/jax2onnx/converter/conversion_api.py"
BUILDER = f"{REPO}/jax2onnx/converter/ir_builder.py"
CONTEXT = f"{REPO}/jax2onnx/converter/ir_context.py"
POST = f"{REPO}/jax2onnx/converter/ir_postprocess.py"
UI = f"{REPO}/jax2onnx/user_interface.py"
FSCOPE = f"{REPO}/jax2onnx/converter/function_scope.py"

ARR = T("ndarray")          # numpy array abstracted to its dtype

# the finite numpy-dtype domain (order = index)
NP_ENUM = ["bool", "int8", "int16", "int32", "int64", "uint8", "uint16", "uint32", "uint64",
           "float16", "bfloat16", "float32", "float64", "complex64", "complex128"]
# how the source spells members of the domain
NP_SPELL = {"np.bool_": "bool", "np.int8": "int8", "np.int16": "int16", "np.int32": "int32", "np.int64": "int64",
            "np.uint8": "uint8", "np.uint16": "uint16", "np.uint32": "uint32", "np.uint64": "uint64",
            "np.float16": "float16", "np.float32": "float32", "np.float64": "float64",
            "np.complex64": "complex64", "np.complex128": "complex128"}
NP_CLASSES = {"np.floating": "np_is_floating", "np.integer": "np_is_integer",
              "np.complexfloating": "np_is_complexfloating"}
FLAG_ATTRS = ("self.builder.enable_double_precision", "self.enable_double_precision")


def np_dtype_of(name):
    import numpy as np
    if name == "bfloat16":
        import ml_dtypes
        return np.dtype(ml_dtypes.bfloat16)
    return np.dtype(name)


def ctype(t):
    if t == ARR:
        return "npdtype"
    if t == NPDT:
        return "npdtype"
    if t.k == "option":
        return f"(option {ctype(t.a[0])})"
    return py2coq.coq_type(t)


def _is_none(n):
    return isinstance(n, ast.Constant) and n.value is None


class TrNp(py2coq.Tr):
    """py2coq.Tr + numpy dtype expressions over the finite enumeration."""

    def __init__(self, sigs, kwdefaults=None):
        super().__init__(sigs, None)
        self.kwdefaults = kwdefaults or {}

    # -- `x is None` / `x is not None` on a variable whose static type decides it
    def none_test_const(self, n, env):
        if (isinstance(n, ast.Compare) and len(n.ops) == 1 and isinstance(n.ops[0], (ast.Is, ast.IsNot))
                and _is_none(n.comparators[0]) and isinstance(n.left, ast.Name) and n.left.id in env):
            t = env[n.left.id]
            if not isinstance(t, T):
                return None
            if t == NONE:
                return isinstance(n.ops[0], ast.Is)
            if t.k != "option":
                return isinstance(n.ops[0], ast.IsNot)
        return None

    @staticmethod
    def _is_opt_not_none(c, env):
        return (isinstance(c, ast.Compare) and len(c.ops) == 1 and isinstance(c.ops[0], ast.IsNot)
                and _is_none(c.comparators[0]) and isinstance(c.left, ast.Name)
                and isinstance(env.get(c.left.id), T) and env[c.left.id].k == "option")

    def e(self, n, env):
        if isinstance(n, ast.Attribute):
            u = ast.unparse(n)
            if u in NP_SPELL:
                return [], "NP_" + NP_SPELL[u], NPDT
            if u in FLAG_ATTRS:
                if env.get("enable_double_precision") != B:
                    py2coq._bad(n, "flag attribute without flag parameter")
                return [], "enable_double_precision", B
            if n.attr == "dtype":
                b, v, t = self.e(n.value, env)
                if t != ARR:
                    py2coq._bad(n, ".dtype of non-array")
                return b, v, NPDT
        if isinstance(n, ast.Name) and env.get(n.id) == NONE:
            py2coq._bad(n, "use of a variable that is statically None")
        return super().e(n, env)

    def call(self, n, env):
        f = ast.unparse(n.func)
        if f == "np.dtype" and len(n.args) == 1 and not n.keywords:
            b, v, t = self.e(n.args[0], env)
            if t != NPDT:
                py2coq._bad(n, "np.dtype of non-dtype")
            return b, v, NPDT          # np.dtype(d) == d on the enumeration (checked at generation time)
        if f == "np.issubdtype" and len(n.args) == 2 and not n.keywords:
            b, v, t = self.e(n.args[0], env)
            cls = ast.unparse(n.args[1])
            if t != NPDT or cls not in NP_CLASSES:
                py2coq._bad(n, "np.issubdtype")
            return b, f"({NP_CLASSES[cls]} {v})", B
        if f == "ir.DataType.from_numpy" and len(n.args) == 1 and not n.keywords:
            b, v, t = self.e(n.args[0], env)
            if t != NPDT:
                py2coq._bad(n, "from_numpy")
            return b, self.raising(b, f"(np_from_numpy {v})"), DT
        if isinstance(n.func, ast.Attribute) and n.func.attr == "astype" and len(n.args) == 1:
            for kw in n.keywords:
                if kw.arg != "copy" or not isinstance(kw.value, ast.Constant):
                    py2coq._bad(n, "astype keyword")
            b, v, t = self.e(n.func.value, env)
            b2, d, td = self.e(n.args[0], env)
            if t != ARR or td != NPDT:
                py2coq._bad(n, "astype")
            return b + b2, d, ARR
        if f in self.kwdefaults and f in self.sigs and n.keywords:
            names, defaults = self.kwdefaults[f]
            args = list(n.args)
            kws = {kw.arg: kw.value for kw in n.keywords}
            for nm in names[len(args):]:
                if nm in kws:
                    args.append(kws.pop(nm))
                elif nm in defaults:
                    args.append(defaults[nm])
                else:
                    py2coq._bad(n, "missing argument " + nm)
            if kws:
                py2coq._bad(n, "unknown keyword")
            return super().call(ast.Call(func=n.func, args=args, keywords=[]), env)
        if f in self.kwdefaults and f in self.sigs and len(n.args) < len(self.kwdefaults[f][0]):
            names, defaults = self.kwdefaults[f]
            args = list(n.args)
            for nm in names[len(args):]:
                if nm not in defaults:
                    py2coq._bad(n, "missing argument " + nm)
                args.append(defaults[nm])
            return super().call(ast.Call(func=n.func, args=args, keywords=[]), env)
        return super().call(n, env)

    def compare(self, n, env):
        k = self.none_test_const(n, env)
        if k is not None:
            return [], ("true" if k else "false"), B
        if len(n.ops) == 1 and isinstance(n.ops[0], (ast.Eq, ast.NotEq)):
            b1, a, ta = self.e(n.left, env)
            if ta == NPDT:
                b2, c, tc = self.e(n.comparators[0], env)
                if tc != NPDT:
                    py2coq._bad(n, "dtype compared with non-dtype")
                ex = f"(npdtype_eqb {a} {c})"
                return b1 + b2, (ex if isinstance(n.ops[0], ast.Eq) else f"(negb {ex})"), B
        return super().compare(n, env)

    def boolop(self, n, env):
        if isinstance(n.op, ast.And):
            vals = []
            for v in n.values:
                k = self.none_test_const(v, env)
                if k is True:
                    continue
                if k is False:              # short circuit: nothing after it is evaluated
                    vals.append(ast.Constant(value=False))
                    break
                vals.append(v)
            if not vals:
                return [], "true", B
            if len(vals) == 1:
                return self.e(vals[0], env)
            return super().boolop(ast.BoolOp(op=ast.And(), values=vals), env)
        return super().boolop(n, env)

    def stmts(self, body, env, ret):
        if body:
            s = body[0]
            if (isinstance(s, ast.Assign) and len(s.targets) == 1 and isinstance(s.targets[0], ast.Name)
                    and _is_none(s.value)):
                env2 = dict(env)
                env2[s.targets[0].id] = NONE           # no binding emitted: the value can only be None-tested
                return self.stmts(body[1:], env2, ret)
            if (isinstance(s, ast.If) and isinstance(s.test, ast.BoolOp) and isinstance(s.test.op, ast.And)
                    and self._is_opt_not_none(s.test.values[0], env)):
                # `if x is not None and C: A else: D`  ==  `if x is not None: (if C: A else: D) else: D`
                # (keeps the narrowed and the un-narrowed x apart; py2coq's own conjunct handling would put D,
                #  translated for the optional x, under the binder of the narrowed x)
                restc = s.test.values[1:]
                inner = ast.If(test=restc[0] if len(restc) == 1 else ast.BoolOp(op=ast.And(), values=restc),
                               body=s.body, orelse=s.orelse, lineno=s.lineno)
                outer = ast.If(test=s.test.values[0], body=[inner], orelse=s.orelse, lineno=s.lineno)
                return self.stmts([outer] + list(body[1:]), env, ret)
            if isinstance(s, ast.If):
                conj = list(s.test.values) if isinstance(s.test, ast.BoolOp) and isinstance(s.test.op, ast.And) else [s.test]
                dead = False
                for c in conj:                      # left to right: a statically-false None-test before anything raising
                    k = self.none_test_const(c, env)
                    if k is False:
                        dead = True
                        break
                    if k is None and not (isinstance(c, ast.UnaryOp) and isinstance(c.operand, ast.Name)) \
                            and not isinstance(c, ast.Name):
                        break
                if dead:                            # the then-branch can never run with this static type
                    blk = list(s.orelse)
                    return self.stmts(blk + ([] if py2coq.ends_in_return(blk) else list(body[1:])), env, ret)
        return super().stmts(body, env, ret)


# ------------------------------------------------------------------------------- helpers
def _tree(path):
    with open(path) as fh:
        return ast.parse(fh.read())


def _find(tree, name, cls=None):
    scope = tree.body
    if cls is not None:
        for n in tree.body:
            if isinstance(n, ast.ClassDef) and n.name == cls:
                scope = n.body
                break
        else:
            raise Unsupported(f"class {cls} not found")
    for n in scope:
        if isinstance(n, ast.FunctionDef) and n.name == name:
            return n
    raise Unsupported(f"function {(cls + '.') if cls else ''}{name} not found")


RESERVED = {"dtype": "dtype_"}       # Python variable names that are Coq identifiers in scope


class _Rename(ast.NodeTransformer):
    def visit_Name(self, n):
        if n.id in RESERVED:
            return ast.copy_location(ast.Name(id=RESERVED[n.id], ctx=n.ctx), n)
        return n


def _emit(tr, path, lineno, pyname, cname, params, ret, body):
    import copy
    body = [_Rename().visit(copy.deepcopy(s)) for s in body]
    params = [(RESERVED.get(a, a), t) for a, t in params]
    env = dict(params)
    txt = tr.stmts(body, env, ret)
    ps = " ".join(f"({a} : {ctype(t)})" for a, t in params)
    return f"(* {path}:{lineno} {pyname} *)\nDefinition {cname} {ps} : option {ctype(ret)} :=\n {txt}.\n"


def _argnames(f, drop_self=False):
    names = [a.arg for a in f.args.args] + [a.arg for a in f.args.kwonlyargs]
    if f.args.vararg or f.args.kwarg:
        raise Unsupported(f"{f.name}: varargs")
    if drop_self:
        if not names or names[0] != "self":
            raise Unsupported(f"{f.name}: not a method")
        names = names[1:]
    return names


def _defaults(f):
    d = {}
    pos = f.args.args
    for a, v in zip(pos[len(pos) - len(f.args.defaults):], f.args.defaults):
        d[a.arg] = v
    for a, v in zip(f.args.kwonlyargs, f.args.kw_defaults):
        if v is not None:
            d[a.arg] = v
    return d


# ------------------------------------------------------------------------------- library tables
def _tables():
    import numpy as np
    import onnx_ir as ir

    def b(x):
        return "true" if x else "false"
    dts = [np_dtype_of(n) for n in NP_ENUM]
    # facts the abstraction relies on (checked against the installed numpy on every generation)
    for i, a in enumerate(dts):
        if np.dtype(a) != a:
            raise Unsupported(f"np.dtype({a}) is not idempotent")
        for j, c in enumerate(dts):
            if (a == c) != (i == j):
                raise Unsupported(f"numpy dtype equality {a} == {c} is not identity on the enumeration")
    for spell, nm in NP_SPELL.items():
        sc = getattr(np, spell[3:])
        for j, c in enumerate(dts):
            if (c == sc) != (NP_ENUM[j] == nm) or (np.dtype(sc) == c) != (NP_ENUM[j] == nm):
                raise Unsupported(f"dtype == scalar-type comparison {c} == {spell} unexpected")
    # astype between members of the enumeration yields exactly the requested dtype
    for a in dts:
        for c in dts:
            import warnings
            with warnings.catch_warnings():
                warnings.simplefilter("ignore")
                if np.zeros(2, dtype=a).astype(c, copy=False).dtype != c or np.asarray(np.zeros(2, dtype=a)).dtype != a:
                    raise Unsupported(f"astype {a}->{c} does not give {c}")
    out = ["Inductive npdtype := " + " | ".join("NP_" + n for n in NP_ENUM) + ".",
           "Definition all_npdtypes : list npdtype := [" + "; ".join("NP_" + n for n in NP_ENUM) + "].",
           "Definition np_index (d : npdtype) : Z :=\n  match d with " +
           " ".join(f"| NP_{n} => {i}" for i, n in enumerate(NP_ENUM)) + " end.",
           "Definition npdtype_eqb (a b : npdtype) : bool := (np_index a =? np_index b)%Z.",
           "Definition np_itemsize (d : npdtype) : Z :=\n  match d with " +
           " ".join(f"| NP_{n} => {d.itemsize}" for n, d in zip(NP_ENUM, dts)) + " end.",
           "(* answers of the installed numpy: np.issubdtype(d, np.floating / np.integer / np.complexfloating) *)"]
    for fn, cls in (("np_is_floating", np.floating), ("np_is_integer", np.integer),
                    ("np_is_complexfloating", np.complexfloating)):
        out.append(f"Definition {fn} (d : npdtype) : bool :=\n  match d with " +
                   " ".join(f"| NP_{n} => {b(np.issubdtype(d, cls))}" for n, d in zip(NP_ENUM, dts)) + " end.")
    out.append("(* answers of the installed onnx_ir: ir.DataType.from_numpy(d); None = it raises *)")
    arms = []
    for n, d in zip(NP_ENUM, dts):
        try:
            r = ir.DataType.from_numpy(d)
            arms.append(f"| NP_{n} => Some DT_{r.name}")
        except Exception:
            arms.append(f"| NP_{n} => None")
    out.append("Definition np_from_numpy (d : npdtype) : option dtype :=\n  match d with " + " ".join(arms) + " end.")
    return "\n".join(out) + "\n"


# ------------------------------------------------------------------------------- policy functions
def _policy_functions():
    out = []
    t_utils, t_conv, t_builder, t_ctx = _tree(IR_UTILS), _tree(CONV), _tree(BUILDER), _tree(CONTEXT)

    f_n2i = _find(t_utils, "numpy_dtype_to_ir")
    f_pol = _find(t_utils, "numpy_dtype_to_ir_with_float_policy")
    f_d2i = _find(t_builder, "_dtype_to_ir")
    f_npf = _find(t_conv, "_np_float_dtype")
    f_mpf = _find(t_conv, "_maybe_promote_float_array")
    f_tid = _find(t_conv, "_to_ir_dtype_from_np")
    f_cpf = _find(t_ctx, "_promote_float_array", cls="IRContext")
    f_ini = _find(t_builder, "add_initializer_from_scalar", cls="IRBuilder")
    f_bcc = _find(t_conv, "_bind_closed_jaxpr_constants")

    if _argnames(f_n2i) != ["dtype", "default"] or _argnames(f_pol) != ["dtype", "enable_double_precision"]:
        raise Unsupported("numpy_dtype_to_ir / numpy_dtype_to_ir_with_float_policy: unexpected parameters")
    if _argnames(f_d2i) != ["dtype", "enable_double"] or _argnames(f_npf) != ["enable_double_precision"]:
        raise Unsupported("_dtype_to_ir / _np_float_dtype: unexpected parameters")
    if _argnames(f_mpf) != ["arr", "enable_double_precision"] or _argnames(f_tid) != ["np_dtype"]:
        raise Unsupported("_maybe_promote_float_array / _to_ir_dtype_from_np: unexpected parameters")
    if _argnames(f_cpf, drop_self=True) != ["arr"]:
        raise Unsupported("IRContext._promote_float_array: unexpected parameters")
    # the builder module must use the ir_utils policy under its own name
    imported = any(isinstance(n, ast.ImportFrom) and (n.module or "").endswith("ir_utils")
                   and any(a.name == "numpy_dtype_to_ir_with_float_policy" and a.asname is None for a in n.names)
                   for n in t_builder.body)
    if not imported:
        raise Unsupported("ir_builder no longer imports numpy_dtype_to_ir_with_float_policy from ir_utils")
    for tr_, who in ((t_conv, "conversion_api"),):
        ok = any(isinstance(n, ast.ImportFrom) and any(a.name == "numpy_dtype_to_ir" and a.asname is None for a in n.names)
                 for n in tr_.body)
        if not ok:
            raise Unsupported(f"{who} no longer imports numpy_dtype_to_ir")

    sigs = {
        "numpy_dtype_to_ir": ([NPDT, DT], DT, "numpy_dtype_to_ir"),
        "numpy_dtype_to_ir_with_float_policy": ([Opt(NPDT), B], DT, "numpy_dtype_to_ir_with_float_policy"),
        "_dtype_to_ir": ([Opt(NPDT), B], DT, "dtype_to_ir"),
        "_np_float_dtype": ([B], NPDT, "np_float_dtype"),
        "_maybe_promote_float_array": ([ARR, B], ARR, "maybe_promote_float_array"),
        "_to_ir_dtype_from_np": ([NPDT], DT, "to_ir_dtype_from_np"),
    }
    kwd = {"numpy_dtype_to_ir": (["dtype", "default"], _defaults(f_n2i))}
    tr = TrNp(sigs, kwd)

    out.append(_emit(tr, IR_UTILS, f_n2i.lineno, "numpy_dtype_to_ir", "numpy_dtype_to_ir",
                     [("dtype", NPDT), ("default", DT)], DT, list(f_n2i.body)))
    out.append(_emit(tr, IR_UTILS, f_pol.lineno, "numpy_dtype_to_ir_with_float_policy",
                     "numpy_dtype_to_ir_with_float_policy",
                     [("dtype", Opt(NPDT)), ("enable_double_precision", B)], DT, list(f_pol.body)))
    out.append(_emit(tr, BUILDER, f_d2i.lineno, "_dtype_to_ir", "dtype_to_ir",
                     [("dtype", Opt(NPDT)), ("enable_double", B)], DT, list(f_d2i.body)))
    out.append(_emit(tr, CONV, f_npf.lineno, "_np_float_dtype", "np_float_dtype",
                     [("enable_double_precision", B)], NPDT, list(f_npf.body)))
    out.append(_emit(tr, CONV, f_mpf.lineno, "_maybe_promote_float_array", "maybe_promote_float_array",
                     [("arr", ARR), ("enable_double_precision", B)], ARR, list(f_mpf.body)))
    out.append(_emit(tr, CONV, f_tid.lineno, "_to_ir_dtype_from_np", "to_ir_dtype_from_np",
                     [("np_dtype", NPDT)], DT, list(f_tid.body)))
    out.append(_emit(tr, CONTEXT, f_cpf.lineno, "IRContext._promote_float_array", "ctx_promote_float_array",
                     [("enable_double_precision", B), ("arr", ARR)], ARR, list(f_cpf.body)))

    # ---- IRBuilder.add_initializer_from_scalar: the down-cast applied to a NEW initializer payload
    anchor = None
    for i, st in enumerate(f_ini.body):
        if isinstance(st, ast.Assign) and ast.unparse(st) == "arr = np.asarray(value)":
            anchor = i
    if anchor is None or anchor + 2 >= len(f_ini.body):
        raise Unsupported("add_initializer_from_scalar: `arr = np.asarray(value)` not found at top level")
    dec, nxt = f_ini.body[anchor + 1], f_ini.body[anchor + 2]
    if not (isinstance(dec, ast.If) and not dec.orelse and len(dec.body) == 1 and isinstance(dec.body[0], ast.Assign)
            and ast.unparse(dec.body[0].targets[0]) == "arr" and ast.unparse(nxt) == "tensor = ir.tensor(arr)"):
        raise Unsupported("add_initializer_from_scalar: expected `if <policy>: arr = ...` followed by `tensor = ir.tensor(arr)`")
    out.append(_emit(tr, BUILDER, dec.lineno, "IRBuilder.add_initializer_from_scalar (payload dtype decision)",
                     "builder_initializer_payload",
                     [("enable_double_precision", B), ("arr", ARR)], ARR,
                     [dec, ast.Return(value=ast.Name(id="arr", ctx=ast.Load()))]))

    # ---- _bind_closed_jaxpr_constants: dtype of the payload handed to bind_const_for_var
    loops = [s for s in f_bcc.body if isinstance(s, ast.For)]
    if len(loops) != 1 or ast.unparse(loops[0].iter) != "zip(jpr.constvars, consts)":
        raise Unsupported("_bind_closed_jaxpr_constants: expected a single loop over zip(jpr.constvars, consts)")
    body = list(loops[0].body)
    if len(body) < 6 or ast.unparse(body[0]) != "np_c = np.asarray(cval)" or ast.unparse(body[1]) != "target_dtype = None":
        raise Unsupported("_bind_closed_jaxpr_constants: unexpected loop prologue")
    tr_stmt = body[2]
    if not (isinstance(tr_stmt, ast.Try) and len(tr_stmt.body) == 1
            and ast.unparse(tr_stmt.body[0]) == "target_dtype = np.dtype(cv.aval.dtype)"
            and all(len(h.body) == 1 and ast.unparse(h.body[0]) == "target_dtype = None" for h in tr_stmt.handlers)
            and not tr_stmt.orelse and not tr_stmt.finalbody):
        raise Unsupported("_bind_closed_jaxpr_constants: unexpected target_dtype computation")
    if ast.unparse(body[-1]) != "ctx.bind_const_for_var(cv, np_c)":
        raise Unsupported("_bind_closed_jaxpr_constants: loop does not end in ctx.bind_const_for_var(cv, np_c)")
    decision = body[3:-1] + [ast.Return(value=ast.Name(id="np_c", ctx=ast.Load()))]
    for st in body[3:-1]:
        for x in ast.walk(st):
            if isinstance(x, ast.Name) and x.id in ("cv", "cval", "ctx", "jpr"):
                raise Unsupported("_bind_closed_jaxpr_constants: decision statements depend on more than dtypes")
    out.append(_emit(tr, CONV, body[3].lineno,
                     "_bind_closed_jaxpr_constants (dtype of the payload handed to bind_const_for_var; "
                     "target_dtype = dtype of the constvar's aval or None)", "closed_const_payload",
                     [("np_c", ARR), ("target_dtype", Opt(NPDT)), ("default_float", NPDT),
                      ("enable_double_precision", B)], ARR, decision))

    # ---- IRContext.bind_const_for_var outside function mode: value type = _dtype_to_ir(promote(array).dtype, flag)
    f_bind = _find(t_ctx, "bind_const_for_var", cls="IRContext")
    src = ast.unparse(f_bind)
    need = ["promote_flag = self.builder.enable_double_precision",
            "array = self._promote_float_array(array)",
            "type=ir.TensorType(_dtype_to_ir(array.dtype, promote_flag))",
            "tensor = ir.tensor(array)"]
    for s in need:
        if s not in src:
            raise Unsupported("IRContext.bind_const_for_var: expected statement missing: " + s)
    out.append("(* IRContext.bind_const_for_var (checked present in the source): payload = self._promote_float_array(array),\n"
               "   declared type = _dtype_to_ir(payload.dtype, flag)  [outside function mode / without _keep_function_float32] *)\n"
               "Definition bind_const_declared (enable_double_precision : bool) (arr : npdtype) : option dtype :=\n"
               " (let* p := ctx_promote_float_array enable_double_precision arr in dtype_to_ir (Some p) enable_double_precision).\n")
    return "\n".join(out)


# ------------------------------------------------------------------------------- post-processing facts
def _postprocess_facts():
    t = _tree(POST)
    out = []
    f1 = _find(t, "_maybe_promote_value_to_double")
    f2 = _find(t, "_promote_constant_attributes")
    s1, s2 = ast.unparse(f1), ast.unparse(f2)
    if not ("if array is None or array.dtype != np.float32:\n        return" in s1
            and "ir.tensor(array.astype(np.float64))" in s1 and "ir.TensorType(ir.DataType.DOUBLE)" in s1):
        raise Unsupported("_maybe_promote_value_to_double: unexpected shape")
    if not ("if array.dtype != np.float32:\n        return" in s2 and "ir.tensor(array.astype(np.float64))" in s2):
        raise Unsupported("_promote_constant_attributes: unexpected shape")
    out.append("(* ir_postprocess._maybe_promote_value_to_double / _promote_constant_attributes: a payload is rewritten iff its\n"
               "   dtype is the source dtype, to the target dtype *)\n"
               "Definition postprocess_promote_source : npdtype := NP_float32.\n"
               "Definition postprocess_promote_target : npdtype := NP_float64.\n"
               "Definition postprocess_payload (promote : bool) (d : npdtype) : npdtype :=\n"
               "  if promote && npdtype_eqb d postprocess_promote_source then postprocess_promote_target else d.\n")
    # traversal: initializers, Constant nodes, node outputs, nested GRAPH/GRAPHS attributes, functions
    pg = ast.unparse(_find(t, "_process_graph"))
    pf = ast.unparse(_find(t, "_process_functions"))
    pm = ast.unparse(_find(t, "postprocess_ir_model"))
    facts = {
        "postprocess_visits_initializers": "for initializer in _iter_initializers(graph):\n            _maybe_promote_value_to_double(initializer)" in pg,
        "postprocess_visits_constant_nodes": "if promote and node.op_type == 'Constant':\n            _promote_constant_attributes(node)" in pg,
        "postprocess_visits_node_outputs": "_maybe_promote_value_to_double(output)" in pg,
        "postprocess_recurses_graph_attrs": "attr.type is AttributeType.GRAPH" in pg and "attr.type is AttributeType.GRAPHS" in pg
                                            and pg.count("_process_graph(sub_graph, loosen=loosen, promote=promote") == 2,
        "postprocess_visits_functions": "_process_graph(graph_obj, loosen=loosen, promote=promote" in pf
                                        and "_process_functions(model, loosen=True, promote=promote_to_double)" in pm
                                        and "promote=promote_to_double" in pm,
    }
    for k, v in facts.items():
        if not v:
            raise Unsupported(f"ir_postprocess: structural fact {k} no longer holds")
        out.append(f"Definition {k} : bool := true.")
    # function scopes inherit the flag
    fs = ast.unparse(_tree(FSCOPE))
    if not ("parent_x64 = parent.enable_double_precision" in fs and "enable_double_precision=parent_x64" in fs):
        raise Unsupported("function_scope: child context no longer inherits enable_double_precision")
    out.append("Definition function_scope_inherits_flag : bool := true.")
    return "\n".join(out) + "\n"


# ------------------------------------------------------------------------------- x64 context managers
READS = {"jax.config.jax_enable_x64", "bool(jax.config.jax_enable_x64)", "bool(read_config('jax_enable_x64'))",
         "jax.config.read('jax_enable_x64')", "bool(jax.config.read('jax_enable_x64'))"}


class _Mgr:
    """generator-based context manager over ONE piece of global state (jax_enable_x64) -> Gallina function
    (param) (body : bool -> bool * bool) (cfg : bool) : bool * bool   [state after, did the body raise]"""

    def __init__(self, f, path):
        self.f, self.path = f, path
        if not any(ast.unparse(d) == "contextmanager" for d in f.decorator_list):
            raise Unsupported(f"{f.name}: not a @contextmanager")
        names = _argnames(f)
        if len(names) != 1:
            raise Unsupported(f"{f.name}: expected one parameter")
        self.param = names[0]
        self.locals = {self.param}
        self.yielded = False
        self.static = {}          # names with statically resolved truthiness (installed-library facts)
        self.notes = []

    def bad(self, n, why):
        raise Unsupported(f"{self.path}:{getattr(n, 'lineno', '?')} {self.f.name}: {why} :: {ast.unparse(n)[:90]}")

    def bexpr(self, n):
        u = ast.unparse(n)
        if u in READS:
            return "cfg"
        if isinstance(n, ast.Name) and n.id in self.locals:
            return n.id
        if isinstance(n, ast.Call) and ast.unparse(n.func) == "bool" and len(n.args) == 1:
            return self.bexpr(n.args[0])
        if isinstance(n, ast.IfExp):
            k = self.static_truth(n.test)
            return self.bexpr(n.body if k else n.orelse)
        if isinstance(n, ast.Constant) and isinstance(n.value, bool):
            return "true" if n.value else "false"
        self.bad(n, "boolean expression")

    def static_truth(self, n):
        import jax
        u = ast.unparse(n)
        if u.startswith("hasattr(jax.config, ") and isinstance(n, ast.Call) and isinstance(n.args[1], ast.Constant):
            r = hasattr(jax.config, n.args[1].value)
            self.notes.append(f"{u} = {r} in the installed jax {jax.__version__}")
            return r
        if isinstance(n, ast.Call) and ast.unparse(n.func) == "callable" and isinstance(n.args[0], ast.Name) \
                and n.args[0].id in self.static:
            return self.static[n.args[0].id]
        self.bad(n, "condition not statically resolvable")

    def cond(self, n):
        if isinstance(n, ast.Compare) and len(n.ops) == 1 and isinstance(n.ops[0], (ast.NotEq, ast.Eq)):
            a, c = self.bexpr(n.left), self.bexpr(n.comparators[0])
            ex = f"(Bool.eqb {a} {c})"
            return ex if isinstance(n.ops[0], ast.Eq) else f"(negb {ex})"
        self.bad(n, "condition")

    def update(self, s):
        if (isinstance(s, ast.Expr) and isinstance(s.value, ast.Call) and ast.unparse(s.value.func) == "jax.config.update"
                and len(s.value.args) == 2 and ast.unparse(s.value.args[0]) == "'jax_enable_x64'" and not s.value.keywords):
            return self.bexpr(s.value.args[1])
        return None

    def block(self, stmts, k):
        """returns Gallina text: run stmts then continuation text k (statements are processed in source order)"""
        if not stmts:
            return k
        s, rest = stmts[0], stmts[1:]
        if isinstance(s, ast.Expr) and isinstance(s.value, ast.Constant) and isinstance(s.value.value, str):
            return self.block(rest, k)
        if isinstance(s, ast.Assign) and len(s.targets) == 1 and isinstance(s.targets[0], ast.Name):
            nm = s.targets[0].id
            u = ast.unparse(s.value)
            if u == "jax.config.read if hasattr(jax.config, 'read') else None":
                self.static[nm] = self.static_truth(s.value.test)
                return self.block(rest, k)
            v = self.bexpr(s.value)
            self.locals.add(nm)
            return f"let {nm} := {v} in\n  {self.block(rest, k)}"
        if isinstance(s, ast.If):
            upd_body = [self.update(x) for x in s.body]
            if len(s.body) == 1 and upd_body[0] is not None and not s.orelse:
                c = self.cond(s.test)
                return f"let cfg := if {c} then {upd_body[0]} else cfg in\n  {self.block(rest, k)}"
            # statically resolved branch (installed-library fact)
            taken = s.body if self.static_truth(s.test) else s.orelse
            return self.block(list(taken) + rest, k)
        if isinstance(s, ast.Expr) and isinstance(s.value, ast.Yield) and s.value.value is None:
            if self.yielded:
                self.bad(s, "second yield")
            self.yielded = True
            if getattr(self, "_in_try", False):
                return f"let '(cfg, raised) := body cfg in\n  {self.block(rest, k)}"
            # a yield outside try/finally: what follows it runs only when the body did not raise
            return (f"let '(cfg, raised) := body cfg in\n  if raised then (cfg, raised) else\n  {self.block(rest, k)}")
        if isinstance(s, ast.Try) and not s.handlers and not s.orelse and s.finalbody:
            # try: A finally: F  -- F runs whether or not the body (the yield inside A) raised
            last = s.body[-1]
            if self.yielded or not (isinstance(last, ast.Expr) and isinstance(last.value, ast.Yield)):
                self.bad(s, "try/finally must end in the (only) yield")
            self._in_try = True
            inner = self.block(list(s.body), "@@FINALLY@@")
            self._in_try = False
            after = k if not rest else f"if raised then (cfg, raised) else\n  {self.block(rest, k)}"
            return inner.replace("@@FINALLY@@", self.block(list(s.finalbody), after))
        self.bad(s, "statement")

    def text(self, cname):
        body = self.block(list(self.f.body), "(cfg, raised)")
        if not self.yielded:
            raise Unsupported(f"{self.f.name}: no yield")
        notes = "".join(f"   [{n}]\n" for n in self.notes)
        return (f"(* {self.path}:{self.f.lineno} {self.f.name}: cfg = the process-wide jax_enable_x64; body = the code run under `with`\n"
                f"   (state -> state after, raised?); result = (state after the manager exits, raised?)\n{notes}*)\n"
                f"Definition {cname} ({self.param} : bool) (body : bool -> bool * bool) (cfg : bool) : bool * bool :=\n"
                f"  {body}.\n")


def _managers():
    out = []
    t_ui, t_conv = _tree(UI), _tree(CONV)
    out.append(_Mgr(_find(t_ui, "_temporary_x64"), UI).text("temporary_x64"))
    out.append(_Mgr(_find(t_conv, "_force_jax_x64"), CONV).text("force_jax_x64"))

    # where they are used: every with-statement on them passes the precision flag, and the public entry point wraps the
    # whole conversion + post-processing
    def withs(tree, fname, mgr):
        f = _find(tree, fname)
        found = []
        for n in ast.walk(f):
            if isinstance(n, ast.With):
                for it in n.items:
                    if isinstance(it.context_expr, ast.Call) and ast.unparse(it.context_expr.func) == mgr:
                        found.append((n, ast.unparse(it.context_expr)))
        return f, found
    f, w = withs(t_ui, "to_onnx", "_temporary_x64")
    if len(w) != 1 or w[0][1] != "_temporary_x64(enable_double_precision)":
        raise Unsupported("user_interface.to_onnx: expected exactly one `with _temporary_x64(enable_double_precision)`")
    inside = ast.unparse(w[0][0])
    if "to_onnx_impl(" not in inside or "postprocess_ir_model(" not in inside:
        raise Unsupported("user_interface.to_onnx: conversion/post-processing no longer inside the x64 manager")
    calls_outside = [ast.unparse(n) for n in ast.walk(f) if isinstance(n, ast.Call)
                     and ast.unparse(n.func) in ("to_onnx_impl", "postprocess_ir_model")]
    if len(calls_outside) != 2:
        raise Unsupported("user_interface.to_onnx: conversion called more than once")
    f2, w2 = withs(t_conv, "to_onnx", "_force_jax_x64")
    if len(w2) != 1 or w2[0][1] != "_force_jax_x64(enable_double_precision)" or f2.body[-1] is not w2[0][0]:
        raise Unsupported("conversion_api.to_onnx: body is no longer one `with _force_jax_x64(enable_double_precision)`")
    out.append("(* structure read from the AST: user_interface.to_onnx runs `to_onnx_impl; postprocess_ir_model` inside ONE\n"
               "   `with _temporary_x64(flag)`, conversion_api.to_onnx is ONE `with _force_jax_x64(flag)` *)\n"
               "Definition body_seq (a b : bool -> bool * bool) (cfg : bool) : bool * bool :=\n"
               "  let '(cfg1, raised) := a cfg in if raised then (cfg1, true) else b cfg1.\n"
               "Definition to_onnx_x64 (flag : bool) (convert post : bool -> bool * bool) : bool -> bool * bool :=\n"
               "  temporary_x64 flag (body_seq (force_jax_x64 flag convert) post).\n")
    return "\n".join(out)


def unit_GenPrecision():
    return (py2coq.HEADER +
            "(* ---- finite numpy-dtype domain + answers of the installed numpy / onnx_ir (data) *)\n" + _tables() + "\n"
            "(* ---- translated policy functions; an ndarray is abstracted to its dtype *)\n" + _policy_functions() + "\n"
            + _postprocess_facts() + "\n" + _managers())


UNITS = {"GenPrecision": unit_GenPrecision}
