"""Regen unit of property C03 (well-formed exports): GenNames = the naming discipline of the converter,
TRANSLATED from the current working tree:

  * IRContext.fresh_name  (converter/ir_context.py, counter family `_name_counters`)
  * IRBuilder.fresh_name  (converter/ir_builder.py, counter family `_counters`)
  * the two fresh_name wrappers that make_subgraph_context installs on a child context / child builder
    (plugins/jax/lax/_control_flow_utils.py): `_orig(f"{_pref}/{base}")` with `_pref = parent_ctx.fresh_name(prefix)`

The methods use `self` state, so tools/py2coq.translate_functions does not apply; a dedicated extractor
checks the exact statement shape

      i = self.<F>.get(base, <int>)
      self.<F>[base] = i + <int>
      [<v> = <str> if base.endswith(<str> | (<str>, ...)) else <str>]*
      return f"...{base}...{<v>}...{i}..."

and translates the pure string-building expression; anything else raises py2coq.Unsupported (fail closed)."""
import ast
import os
import sys

HERE = os.path.dirname(os.path.dirname(os.path.abspath(__file__)))
if HERE not in sys.path:
    sys.path.insert(0, HERE)
import py2coq  # noqa: E402
from py2coq import Unsupported  # noqa: E402

REPO = os.environ.get("VERIF_REPO", "/repo")
CTX = f"{REPO}/jax2onnx/converter/ir_context.py"
BLD = f"{REPO}/jax2onnx/converter/ir_builder.py"
CFU = f"{REPO}/jax2onnx/plugins/jax/lax/_control_flow_utils.py"

PRELUDE = """From Coq Require Import String Ascii List Bool Arith DecimalString DecimalNat Decimal.
From J2O Require Import PyLib.
Import ListNotations.

(* meaning of the Python constructs used by the translated code:
   f"{i}" / str(i) of a non-negative int = its decimal numeral without leading zeros *)
Definition py_str_of_nat (n : nat) : string := NilEmpty.string_of_uint (Nat.to_uint n).
"""


def _method(path, cls, name):
    tree = ast.parse(open(path).read())
    for n in tree.body:
        if isinstance(n, ast.ClassDef) and n.name == cls:
            ms = [m for m in n.body if isinstance(m, ast.FunctionDef) and m.name == name]
            if len(ms) != 1:
                raise Unsupported(f"{path}: expected exactly one {cls}.{name}, found {len(ms)}")
            return ms[0]
    raise Unsupported(f"{path}: class {cls} not found")


def _char(c, where):
    if len(c) != 1 or not (32 <= ord(c) <= 126) or c == '"':
        raise Unsupported(f"{where}: endswith argument {c!r} is not a single printable character")
    return f'"{c}"%char'


def _str_expr(n, env, where):
    """string-valued expression over the variables in env (name -> ('str'|'nat', coq text))"""
    if isinstance(n, ast.Constant) and isinstance(n.value, str):
        return py2coq.coq_string(n.value)
    if isinstance(n, ast.Name) and n.id in env and env[n.id][0] == "str":
        return env[n.id][1]
    if isinstance(n, ast.JoinedStr):
        parts = []
        for v in n.values:
            if isinstance(v, ast.Constant) and isinstance(v.value, str):
                parts.append(py2coq.coq_string(v.value))
            elif isinstance(v, ast.FormattedValue) and v.conversion == -1 and v.format_spec is None \
                    and isinstance(v.value, ast.Name) and v.value.id in env:
                kind, txt = env[v.value.id]
                parts.append(txt if kind == "str" else f"(py_str_of_nat {txt})")
            else:
                raise Unsupported(f"{where}: unsupported f-string part {ast.unparse(v)}")
        if not parts:
            return '""%string'
        return "(" + " ++ ".join(parts) + ")%string"
    if isinstance(n, ast.IfExp):
        t = n.test
        if not (isinstance(t, ast.Call) and isinstance(t.func, ast.Attribute) and t.func.attr == "endswith"
                and isinstance(t.func.value, ast.Name) and t.func.value.id in env and env[t.func.value.id][0] == "str"
                and len(t.args) == 1 and not t.keywords):
            raise Unsupported(f"{where}: unsupported condition {ast.unparse(t)}")
        a = t.args[0]
        sufs = a.elts if isinstance(a, ast.Tuple) else [a]
        if not sufs or not all(isinstance(s, ast.Constant) and isinstance(s.value, str) for s in sufs):
            raise Unsupported(f"{where}: endswith argument is not a tuple of string literals")
        subj = env[t.func.value.id][1]
        cond = " || ".join(f"str_endswith_char {subj} {_char(s.value, where)}" for s in sufs)
        return f"(if ({cond}) then {_str_expr(n.body, env, where)} else {_str_expr(n.orelse, env, where)})"
    raise Unsupported(f"{where}: unsupported string expression {ast.unparse(n)}")


def _fresh_name(path, cls, tag):
    fn = _method(path, cls, "fresh_name")
    where = f"{path}: {cls}.fresh_name"
    args = [a.arg for a in fn.args.args]
    if args != ["self", "base"] or fn.args.vararg or fn.args.kwarg or fn.args.kwonlyargs or fn.decorator_list:
        raise Unsupported(f"{where}: signature is not (self, base)")
    body = [s for s in fn.body if not (isinstance(s, ast.Expr) and isinstance(s.value, ast.Constant))]
    if len(body) < 3 or not isinstance(body[-1], ast.Return):
        raise Unsupported(f"{where}: unexpected body shape")
    s1, s2 = body[0], body[1]
    ok1 = (isinstance(s1, ast.Assign) and len(s1.targets) == 1 and isinstance(s1.targets[0], ast.Name)
           and isinstance(s1.value, ast.Call) and isinstance(s1.value.func, ast.Attribute) and s1.value.func.attr == "get"
           and isinstance(s1.value.func.value, ast.Attribute) and isinstance(s1.value.func.value.value, ast.Name)
           and s1.value.func.value.value.id == "self" and len(s1.value.args) == 2 and not s1.value.keywords
           and isinstance(s1.value.args[0], ast.Name) and s1.value.args[0].id == "base"
           and isinstance(s1.value.args[1], ast.Constant) and type(s1.value.args[1].value) is int
           and s1.value.args[1].value >= 0)
    if not ok1:
        raise Unsupported(f"{where}: first statement is not `i = self.<counters>.get(base, <int>)`: {ast.unparse(s1)}")
    ivar = s1.targets[0].id
    field = s1.value.func.value.attr
    init = s1.value.args[1].value
    ok2 = (isinstance(s2, ast.Assign) and len(s2.targets) == 1 and isinstance(s2.targets[0], ast.Subscript)
           and ast.unparse(s2.targets[0]) == f"self.{field}[base]"
           and isinstance(s2.value, ast.BinOp) and isinstance(s2.value.op, ast.Add)
           and isinstance(s2.value.left, ast.Name) and s2.value.left.id == ivar
           and isinstance(s2.value.right, ast.Constant) and type(s2.value.right.value) is int)
    if not ok2:
        raise Unsupported(f"{where}: second statement is not `self.{field}[base] = {ivar} + <int>`: {ast.unparse(s2)}")
    step = s2.value.right.value
    if step < 0:
        raise Unsupported(f"{where}: negative counter step")
    env = {"base": ("str", "base"), ivar: ("nat", "i")}
    lets = []
    for s in body[2:-1]:
        if not (isinstance(s, ast.Assign) and len(s.targets) == 1 and isinstance(s.targets[0], ast.Name)
                and s.targets[0].id not in env):
            raise Unsupported(f"{where}: unexpected statement {ast.unparse(s)}")
        v = s.targets[0].id
        lets.append((v, _str_expr(s.value, env, where)))
        env[v] = ("str", v)
    ret = _str_expr(body[-1].value, env, where)
    for v, e in reversed(lets):
        ret = f"(let {v} := {e} in {ret})"
    # the counter dictionary must be created empty in __init__ and not be written anywhere else in the class
    tree = ast.parse(open(path).read())
    cdef = [n for n in tree.body if isinstance(n, ast.ClassDef) and n.name == cls][0]
    writes = []
    for m in cdef.body:
        if isinstance(m, ast.FunctionDef):
            for x in ast.walk(m):
                tgts = []
                if isinstance(x, ast.Assign):
                    tgts = x.targets
                elif isinstance(x, (ast.AnnAssign, ast.AugAssign)):
                    tgts = [x.target]
                for t in tgts:
                    u = ast.unparse(t)
                    if u == f"self.{field}" or u.startswith(f"self.{field}["):
                        writes.append((m.name, u, ast.unparse(x.value) if getattr(x, "value", None) is not None else ""))
    expect = sorted([("__init__", f"self.{field}", "{}"), ("fresh_name", f"self.{field}[base]", f"{ivar} + {step}")])
    if sorted(writes) != expect:
        raise Unsupported(f"{where}: counter family self.{field} is written at {writes}, expected only the empty "
                          f"initialisation in __init__ and the increment in fresh_name")
    return (
        f"(* {path}:{fn.lineno}  {cls}.fresh_name *)\n"
        f"Definition {tag}_counter_field : string := {py2coq.coq_string(field)}.\n"
        f"Definition {tag}_counter_init : nat := {init}.\n"
        f"Definition {tag}_counter_next (i : nat) : nat := i + {step}.\n"
        f"Definition {tag}_fresh_string (base : string) (i : nat) : string :=\n  {ret}.\n"
    )


def _subgraph_wrappers():
    path = CFU
    tree = ast.parse(open(path).read())
    fns = [n for n in tree.body if isinstance(n, ast.FunctionDef) and n.name == "make_subgraph_context"]
    if len(fns) != 1:
        raise Unsupported(f"{path}: make_subgraph_context not found")
    fn = fns[0]
    where = f"{path}: make_subgraph_context"
    assigns = {ast.unparse(s.targets[0]): ast.unparse(s.value) for s in ast.walk(fn)
               if isinstance(s, ast.Assign) and len(s.targets) == 1}
    need = {"prefix_base": "parent_ctx.fresh_name(prefix)",
            "orig_ctx_fresh": "child_ctx_any.fresh_name",
            "orig_builder_fresh": "child_builder.fresh_name",
            "child_ctx_any": "cast(Any, child_ctx)",
            "child_builder": "cast(Any, child_ctx_any.builder)"}
    for k, v in need.items():
        if assigns.get(k) != v:
            raise Unsupported(f"{where}: expected `{k} = {v}`, found `{assigns.get(k)}`")
    if assigns.get("child_ctx") != "type(parent_ctx)(**child_kwargs)":
        raise Unsupported(f"{where}: the child context is no longer a freshly constructed type(parent_ctx)(**child_kwargs)")
    out = []
    seen = {}
    for x in ast.walk(fn):
        if isinstance(x, ast.Call) and ast.unparse(x.func) == "setattr" and len(x.args) == 3 \
                and isinstance(x.args[1], ast.Constant) and x.args[1].value == "fresh_name":
            target = ast.unparse(x.args[0])
            mt = x.args[2]
            if not (isinstance(mt, ast.Call) and ast.unparse(mt.func) == "types.MethodType" and len(mt.args) == 2
                    and ast.unparse(mt.args[1]) == target and isinstance(mt.args[0], ast.Lambda)):
                raise Unsupported(f"{where}: fresh_name of {target} is not replaced by types.MethodType(lambda ..., {target})")
            lam = mt.args[0]
            names = [a.arg for a in lam.args.args]
            defaults = [ast.unparse(d) for d in lam.args.defaults]
            orig = {"child_ctx_any": "orig_ctx_fresh", "child_builder": "orig_builder_fresh"}.get(target)
            if orig is None or names != ["self", "base", "_orig", "_pref"] or defaults != [orig, "prefix_base"]:
                raise Unsupported(f"{where}: unexpected wrapper signature for {target}: {ast.unparse(lam.args)}")
            b = lam.body
            if not (isinstance(b, ast.Call) and ast.unparse(b.func) == "_orig" and len(b.args) == 1 and not b.keywords):
                raise Unsupported(f"{where}: wrapper body is not `_orig(<string>)`: {ast.unparse(b)}")
            env = {"base": ("str", "base"), "_pref": ("str", "pref")}
            seen[target] = (_str_expr(b.args[0], env, where), x.lineno)
    if sorted(seen) != ["child_builder", "child_ctx_any"]:
        raise Unsupported(f"{where}: expected fresh_name wrappers on child_ctx_any and child_builder, found {sorted(seen)}")
    for target, tag in (("child_ctx_any", "child_ctx"), ("child_builder", "child_bld")):
        e, ln = seen[target]
        out.append(f"(* {path}:{ln}  {target}.fresh_name = lambda base: _orig(<this>), _pref = parent_ctx.fresh_name(prefix),\n"
                   f"   _orig = the unwrapped fresh_name of the freshly constructed child (empty counters) *)\n"
                   f"Definition {tag}_qualify (pref base : string) : string :=\n  {e}.\n")
    return "\n".join(out)


def _no_foreign_counter_access():
    """the two counter dictionaries are touched nowhere else in the package (textual scan, fail closed)"""
    import re
    root = f"{REPO}/jax2onnx"
    allowed = {os.path.realpath(CTX): "_name_counters", os.path.realpath(BLD): "_counters"}
    pat = re.compile(r"(?<![A-Za-z0-9_])_name_counters(?![A-Za-z0-9_])|\._counters(?![A-Za-z0-9_])|['\"]_counters['\"]")
    for d, _dirs, files in os.walk(root):
        for f in files:
            if not f.endswith(".py"):
                continue
            path = os.path.realpath(os.path.join(d, f))
            for ln, line in enumerate(open(path, errors="replace"), 1):
                for mm in pat.finditer(line):
                    tok = mm.group(0).strip("'\".")
                    if allowed.get(path) != tok:
                        raise Unsupported(f"{path}:{ln}: fresh_name counter family `{tok}` is accessed outside its class")


def unit_GenNames():
    _no_foreign_counter_access()
    return ("(* GENERATED by tools/units/c03_units.py from the current /repo working tree. Do not edit. *)\n" + PRELUDE + "\n"
            + _fresh_name(CTX, "IRContext", "ctx") + "\n" + _fresh_name(BLD, "IRBuilder", "bld") + "\n" + _subgraph_wrappers())


UNITS = {"GenNames": unit_GenNames}

if __name__ == "__main__":
    print(unit_GenNames())
