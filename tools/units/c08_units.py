"""Regen unit GenShapes (property C08): a DEDICATED Python-ast -> Gallina extractor for the dim helpers of
/repo/jax2onnx/converter/ir_optimizations.py (`_dim_token`, `_broadcast_shape_dims`) and
/repo/jax2onnx/converter/ir_postprocess.py (`_dim_is_known`, `_normalize_dim`, `_unknown_shape_like`).

Why not tools/py2coq.py: these functions are untyped (`Any` dims), test `isinstance` on dims, mutate local lists and
leave nested loops by `continue` / `return None`.  Here

 * CONTROL FLOW is translated generically (sequencing, if/elif/else with fall-through, `continue`, `return`,
   local assignment, `xs.append(e)`, `for` loops with loop-carried state, nested loops, `try: <stmts> except: pass`);
   a `for` loop becomes `py_for iter state (fun x state => ...)` whose body yields `Next state'` (continue / fall off the
   end) or `Abort` (`return None` from inside the loop = the function returns None);
 * ATOMIC EXPRESSIONS are translated through a per-function table keyed by the exact source text of the expression
   (`ast.unparse`): `isinstance(dim, (int, np.integer))` becomes the constructor test `dim_is_int dim`, and so on.
   An expression that is not in the table raises py2coq.Unsupported: any edit of the source either changes the generated
   Gallina (and the proofs of coq/theories/Annot.v are re-checked against it) or fails closed.

The universe of dims is the one `onnx_ir.Shape` stores (checked differentially on every run by harness/c08.py):
int | SymbolicDim(str) | SymbolicDim(None), i.e. the `dim` type of coq/theories/Onnx.v (DInt / DSym / DUnk); `None`,
`str` and `np.integer` never occur inside an ir.Shape (ir.Shape normalises them), so the tests for them translate to
`false` and their (dead) branches are dropped, which the generated file records in comments.
"""
import ast
import os
import sys

HERE = os.path.dirname(os.path.abspath(__file__))
sys.path.insert(0, os.path.dirname(HERE))
import py2coq  # noqa: E402
from py2coq import Unsupported  # noqa: E402

REPO = os.environ.get("VERIF_REPO", "/repo")
OPT = f"{REPO}/jax2onnx/converter/ir_optimizations.py"
POST = f"{REPO}/jax2onnx/converter/ir_postprocess.py"

PRELUDE = r"""
(* ---- meaning of the Python subset used by the dim helpers (fixed text of tools/units/c08_units.py) ---- *)
(* dims held by onnx_ir.Shape: int = DInt, SymbolicDim("s") = DSym s, SymbolicDim(None) = DUnk *)
Definition pydim := dim.
Inductive tok := TInt (z : Z) | TValue (v : option string) | TRepr (s : string).
Definition ostr_eqb (a b : option string) : bool :=
  match a, b with Some x, Some y => String.eqb x y | None, None => true | _, _ => false end.
Definition tok_eqb (a b : tok) : bool :=
  match a, b with
  | TInt x, TInt y => Z.eqb x y
  | TValue x, TValue y => ostr_eqb x y
  | TRepr x, TRepr y => String.eqb x y
  | _, _ => false
  end.
Definition dim_is_int (d : dim) : bool := match d with DInt _ => true | _ => false end.
Definition dim_is_symbolic (d : dim) : bool := match d with DInt _ => false | _ => true end.   (* isinstance(d, ir.SymbolicDim) *)
Definition int_of_dim (d : dim) : Z := match d with DInt z => z | _ => 0 end.                      (* int(d), used under dim_is_int only *)
Definition dim_has_value (d : dim) : bool := dim_is_symbolic d.                                 (* hasattr(d, "value") *)
Definition dim_value (d : dim) : option string := match d with DSym s => Some s | _ => None end. (* d.value *)
Definition dim_str (d : dim) : string :=                                                         (* str(d) *)
  match d with DInt z => NilZero.string_of_int (Z.to_int z) | DSym s => s | DUnk => "None"%string end.
Definition dim_repr (d : dim) : string :=                                                        (* repr(d) *)
  match d with DInt z => NilZero.string_of_int (Z.to_int z)
             | DSym s => ("SymbolicDim('" ++ s ++ "')")%string | DUnk => "SymbolicDim(None)"%string end.
Definition str_truthy (s : string) : bool := negb (String.eqb s ""%string).
(* outcome of one loop iteration: continue with the new loop-carried state, or `return None` *)
Inductive step (S : Type) := Next (s : S) | Abort.
Arguments Next {S} s.
Arguments Abort {S}.
Fixpoint py_for {A S : Type} (l : list A) (s : S) (body : A -> S -> step S) : option S :=
  match l with
  | [] => Some s
  | x :: r => match body x s with Next s' => py_for r s' body | Abort => None end
  end.
Definition list_max_nat (l : list nat) : nat := fold_right Nat.max 0%nat l.
"""


# ---------------------------------------------------------------------------------------------- specs
# type of every variable, return type, expression table.  Keys are ast.unparse texts.
FALSE = "false"

SPECS = {
    "_dim_token": dict(
        path=OPT, coq="dim_token", params=[("dim", "pydim")], ret="tok", vars={},
        exprs={
            "isinstance(dim, (int, np.integer))": "dim_is_int dim",
            "('int', int(dim))": "TInt (int_of_dim dim)",
            "hasattr(dim, 'value')": "dim_has_value dim",
            "('value', getattr(dim, 'value'))": "TValue (dim_value dim)",
            "('repr', repr(dim))": "TRepr (dim_repr dim)",
        }),
    "_broadcast_shape_dims": dict(
        path=OPT, coq="broadcast_shape_dims", params=[("shapes", "list (list pydim)")], ret="option (list pydim)",
        vars={"max_rank": "nat", "padded_shapes": "list (list pydim)", "shape": "list pydim", "result": "list pydim",
              "axis": "nat", "resolved": "pydim", "dim": "pydim", "dim_int": "Z", "resolved_int": "Z"},
        exprs={
            "not shapes": "match shapes with [] => true | _ => false end",
            "max((len(shape) for shape in shapes))": "list_max_nat (map (fun shape : list pydim => length shape) shapes)",
            "max_rank == 0": "Nat.eqb max_rank 0",
            "()": "[]",
            "[]": "[]",
            "shapes": "shapes",
            "len(shape) < max_rank": "Nat.ltb (length shape) max_rank",
            "(1,) * (max_rank - len(shape)) + shape": "repeat (DInt 1) (max_rank - length shape) ++ shape",
            "shape": "shape",
            "range(max_rank)": "seq 0 max_rank",
            "1": {"pydim": "DInt 1"},
            "padded_shapes": "padded_shapes",
            "shape[axis]": "nth axis shape DUnk",
            "isinstance(dim, (int, np.integer))": "dim_is_int dim",
            "int(dim)": "int_of_dim dim",
            "dim_int == 1": "Z.eqb dim_int 1",
            "isinstance(resolved, (int, np.integer))": "dim_is_int resolved",
            "int(resolved)": "int_of_dim resolved",
            "resolved_int == 1": "Z.eqb resolved_int 1",
            "dim_int": {"pydim": "DInt dim_int"},
            "resolved_int != dim_int": "negb (Z.eqb resolved_int dim_int)",
            "int(resolved) == 1": "Z.eqb (int_of_dim resolved) 1",
            "dim": "dim",
            "_dim_token(resolved) != _dim_token(dim)": "negb (tok_eqb (dim_token resolved) (dim_token dim))",
            # np.integer never occurs in an ir.Shape; int(resolved) of an int dim is the dim itself
            "int(resolved) if isinstance(resolved, np.integer) else resolved": "resolved",
            "tuple(result)": "result",
        }),
    "_dim_is_known": dict(
        path=POST, coq="dim_is_known", params=[("dim", "pydim")], ret="bool", vars={"text": "string"},
        exprs={
            "dim is None": FALSE,                                   # ir.Shape stores SymbolicDim(None), never None
            "True": "true",
            "isinstance(dim, (int, np.integer))": "dim_is_int dim",
            "isinstance(dim, ir.SymbolicDim)": "dim_is_symbolic dim",
            "dim.value is not None": "match dim_value dim with Some _ => true | None => false end",
            "str(dim)": "dim_str dim",
            "bool(text and text != '?')": "str_truthy text && negb (String.eqb text \"?\"%string)",
            "isinstance(dim, str)": FALSE,                          # ir.Shape turns str into SymbolicDim
        }),
    "_normalize_dim": dict(
        path=POST, coq="normalize_dim", params=[("dim", "pydim")], ret="pydim", vars={},
        exprs={
            "isinstance(dim, np.integer)": FALSE,                   # ir.Shape turns np.integer into int
            "isinstance(dim, int)": "dim_is_int dim",
            "dim": "dim",
            "isinstance(dim, ir.SymbolicDim)": "dim_is_symbolic dim",
            "isinstance(dim, str)": FALSE,
        }),
    "_unknown_shape_like": dict(
        path=POST, coq="unknown_shape_like",
        # `value` is replaced by what the first statement reads from it
        params=[("dims", "option (list pydim)"), ("force_rank_only", "bool")], ret="option (list pydim)",
        drop_first="dims = _shape_dims(value.shape)", pyparams=["value", "force_rank_only"],
        vars={"new_dims": "list pydim", "changed": "bool", "dim": "pydim"},
        exprs={
            "not dims": "match dims with Some (_ :: _) => false | _ => true end",
            "[]": "[]", "False": "false", "True": "true",
            "dims": "match dims with Some l => l | None => [] end",
            "force_rank_only": "force_rank_only",
            "None": {"pydim": "DUnk"},                                # ir.Shape turns None into SymbolicDim(None)
            "_dim_is_known(dim)": "dim_is_known dim",
            "_normalize_dim(dim)": "normalize_dim dim",
            "not changed": "negb changed",
            "ir.Shape(tuple(new_dims))": "new_dims",
        }),
}

# the reader of value.shape that `_unknown_shape_like` starts with: its ir.Shape branch must be the identity on dims
SHAPE_DIMS_PINNED = [
    "if shape_obj is None:\n    return None",
    "if isinstance(shape_obj, ir.Shape):\n    return [dim for dim in shape_obj.dims]",
]


class Gen:
    def __init__(self, name, spec, fn):
        self.name, self.spec, self.fn = name, spec, fn
        self.types = dict(spec["vars"])
        for p, t in spec["params"]:
            self.types[p] = t
        self.used = set()

    # ---- expressions
    def bad(self, node, why):
        raise Unsupported(f"{self.name}: line {getattr(node, 'lineno', '?')}: {why}: `{ast.unparse(node)[:80]}`")

    def E(self, node, want=None):
        txt = ast.unparse(node)
        ent = self.spec["exprs"].get(txt)
        if ent is None:
            self.bad(node, "expression not in the translation table")
        self.used.add(txt)
        if isinstance(ent, dict):
            if want not in ent:
                self.bad(node, f"no translation of this expression at type {want}")
            return ent[want]
        return ent

    def ty(self, var, node):
        if var not in self.types:
            self.bad(node, f"variable {var} has no declared type")
        return self.types[var]

    # ---- statements.  ctx: dict(loop=None | tuple(state vars), defined=set(vars))
    def state_tuple(self, vs):
        return vs[0] if len(vs) == 1 else "(" + ", ".join(vs) + ")"

    def state_pat(self, vs):
        return vs[0] if len(vs) == 1 else "'(" + ", ".join(vs) + ")"

    def assigned(self, stmts):
        out = []
        for s in stmts:
            for n in ast.walk(s):
                if isinstance(n, ast.Assign):
                    for t in n.targets:
                        if isinstance(t, ast.Name) and t.id not in out:
                            out.append(t.id)
                elif isinstance(n, ast.Call) and isinstance(n.func, ast.Attribute) and n.func.attr == "append" \
                        and isinstance(n.func.value, ast.Name):
                    if n.func.value.id not in out:
                        out.append(n.func.value.id)
        return out

    def ret(self, node, loop):
        v = node.value
        is_none = v is None or (isinstance(v, ast.Constant) and v.value is None)
        rt = self.spec["ret"]
        if loop is not None:
            if is_none and rt.startswith("option"):
                return "Abort"
            self.bad(node, "only `return None` may leave a loop")
        if rt.startswith("option"):
            return "None" if is_none else f"Some ({self.E(v)})"
        if is_none:
            if rt == "pydim":
                return "DUnk   (* None: ir.Shape stores it as SymbolicDim(None) *)"
            self.bad(node, "return None at a non-option type")
        return self.E(v, rt)

    def T(self, stmts, loop, defined, ind):
        """translate a statement list (with fall-through to the end of the enclosing loop body / function)"""
        pad = "  " * ind
        if not stmts:
            if loop is None:
                raise Unsupported(f"{self.name}: control reaches the end of the function without return")
            return f"{pad}Next {self.state_tuple(loop)}"
        s, rest = stmts[0], stmts[1:]
        if isinstance(s, ast.Expr) and isinstance(s.value, ast.Constant) and isinstance(s.value.value, str):
            return self.T(rest, loop, defined, ind)                    # docstring
        if isinstance(s, ast.Pass):
            return self.T(rest, loop, defined, ind)
        if isinstance(s, ast.Return):
            return f"{pad}{self.ret(s, loop)}"
        if isinstance(s, ast.Continue):
            if loop is None:
                self.bad(s, "continue outside a loop")
            return f"{pad}Next {self.state_tuple(loop)}"
        if isinstance(s, (ast.Assign, ast.AnnAssign)):
            tgt = s.targets[0] if isinstance(s, ast.Assign) else s.target
            if isinstance(s, ast.Assign) and len(s.targets) != 1 or not isinstance(tgt, ast.Name) or s.value is None:
                self.bad(s, "unsupported assignment")
            t = self.ty(tgt.id, s)
            e = self.E(s.value, t)
            return f"{pad}let {tgt.id} : {t} := {e} in\n" + self.T(rest, loop, defined | {tgt.id}, ind)
        if isinstance(s, ast.Expr) and isinstance(s.value, ast.Call) and isinstance(s.value.func, ast.Attribute) \
                and s.value.func.attr == "append" and isinstance(s.value.func.value, ast.Name) and len(s.value.args) == 1:
            lst = s.value.func.value.id
            t = self.ty(lst, s)
            if not t.startswith("list "):
                self.bad(s, "append on a non-list")
            elt = t[len("list "):].strip()
            if elt.startswith("(") and elt.endswith(")"):
                elt = elt[1:-1]
            e = self.E(s.value.args[0], elt)
            return f"{pad}let {lst} : {t} := {lst} ++ [{e}] in\n" + self.T(rest, loop, defined, ind)
        if isinstance(s, ast.If):
            c = self.E(s.test, "bool")
            if c == FALSE:
                dead = ast.unparse(s.test)
                return (f"{pad}(* `if {dead}:` is never taken on dims of an ir.Shape; branch dropped *)\n"
                        + self.T(list(s.orelse) + rest, loop, defined, ind))
            a = self.T(list(s.body) + rest, loop, set(defined), ind + 1)
            b = self.T(list(s.orelse) + rest, loop, set(defined), ind + 1)
            return f"{pad}if {c} then\n{a}\n{pad}else\n{b}"
        if isinstance(s, ast.Try):
            if s.orelse or s.finalbody or not all(len(h.body) == 1 and isinstance(h.body[0], ast.Pass) for h in s.handlers):
                self.bad(s, "unsupported try statement")
            # the guarded statements cannot raise on the dim universe (getattr of an existing attribute)
            return f"{pad}(* try/except-pass: the guarded statements do not raise on dims *)\n" + \
                self.T(list(s.body) + rest, loop, defined, ind)
        if isinstance(s, ast.For):
            if s.orelse or not isinstance(s.target, ast.Name):
                self.bad(s, "unsupported for statement")
            x = s.target.id
            xt = self.ty(x, s)
            it = self.E(s.iter, f"list {xt}")
            st = [v for v in self.assigned(s.body) if v in defined and v != x]
            if not st:
                self.bad(s, "loop without loop-carried state")
            outer_extra = [v for v in (loop or ()) if v not in st]
            body = self.T(list(s.body), tuple(st), set(defined) | {x}, ind + 2)
            k = self.T(rest, loop, defined, ind + 1)
            abort = "Abort" if loop is not None else ("None" if self.spec["ret"].startswith("option") else None)
            if abort is None:
                self.bad(s, "a loop that may abort needs an option return type")
            del outer_extra
            return (f"{pad}match py_for ({it}) {self.state_tuple(st)} (fun ({x} : {xt}) {self.state_pat(st) if len(st) == 1 else '__st'} =>\n"
                    + (f"{pad}    let {self.state_pat(st)} := __st in\n" if len(st) > 1 else "")
                    + f"{body}) with\n{pad}| None => {abort}\n{pad}| Some {'__st' if len(st) > 1 else st[0]} =>\n"
                    + (f"{pad}  let {self.state_pat(st)} := __st in\n" if len(st) > 1 else "")
                    + f"{k}\n{pad}end")
        self.bad(s, f"unsupported statement {type(s).__name__}")

    def run(self):
        fn, spec = self.fn, self.spec
        pyparams = [a.arg for a in fn.args.posonlyargs + fn.args.args + fn.args.kwonlyargs]
        if fn.args.vararg or fn.args.kwarg:
            raise Unsupported(f"{self.name}: *args/**kwargs")
        want = spec.get("pyparams", [p for p, _ in spec["params"]])
        if pyparams != want:
            raise Unsupported(f"{self.name}: parameters {pyparams}, expected {want}")
        body = list(fn.body)
        if spec.get("drop_first"):
            if not body or ast.unparse(body[0]) != spec["drop_first"]:
                raise Unsupported(f"{self.name}: first statement is not `{spec['drop_first']}`")
            body = body[1:]
        txt = self.T(body, None, {p for p, _ in spec["params"]}, 1)
        unused = set(spec["exprs"]) - self.used
        if unused:
            raise Unsupported(f"{self.name}: table entries no longer occur in the source: {sorted(unused)[:4]}")
        params = " ".join(f"({p} : {t})" for p, t in spec["params"])
        return (f"(* {spec['path']}:{fn.lineno} {self.name} *)\n"
                f"Definition {spec['coq']} {params} : {spec['ret']} :=\n{txt}.\n")


def _functions(path):
    tree = ast.parse(open(path).read())
    return {n.name: n for n in tree.body if isinstance(n, ast.FunctionDef)}


def unit_GenShapes():
    fopt, fpost = _functions(OPT), _functions(POST)
    # pinned: the reader `_shape_dims` is the identity on ir.Shape dims and None on a missing shape
    sd = fpost.get("_shape_dims")
    if sd is None:
        raise Unsupported("_shape_dims not found")
    got = [ast.unparse(s) for s in sd.body[:2]]
    if got != SHAPE_DIMS_PINNED:
        raise Unsupported(f"_shape_dims: leading statements changed: {got}")
    out = []
    for name in ["_dim_token", "_broadcast_shape_dims", "_dim_is_known", "_normalize_dim", "_unknown_shape_like"]:
        spec = SPECS[name]
        fn = (fopt if spec["path"] == OPT else fpost).get(name)
        if fn is None:
            raise Unsupported(f"{name} not found in {spec['path']}")
        out.append(Gen(name, spec, fn).run())
    ctxt, _ = py2coq.translate_constants(OPT, ["ELEMENTWISE_BINARY_OPS", "ELEMENTWISE_UNARY_OPS", "UNARY_DATAFLOW_OPS"], prefix="GS_")
    head = ("(* GENERATED by tools/units/c08_units.py from the current /repo working tree. Do not edit. *)\n"
            "From Coq Require Import ZArith String List Bool DecimalString.\n"
            "From J2O Require Import Onnx.\n"
            "Import ListNotations.\nLocal Open Scope Z_scope.\n")
    return head + PRELUDE + "\n" + "\n".join(out) + "\n" + ctxt


UNITS = {"GenShapes": unit_GenShapes}

if __name__ == "__main__":
    print(unit_GenShapes())
