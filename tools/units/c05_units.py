"""regen unit for C05: the always-keep decision of prune_unused_graph_inputs_ir"""
import os
import py2coq

REPO = os.environ.get("VERIF_REPO", "/repo")


def unit_GenInterface():
    txt, _ = py2coq.translate_functions(f"{REPO}/jax2onnx/converter/ir_optimizations.py", ["_should_always_keep"])
    return py2coq.HEADER + txt


UNITS = {"GenInterface": unit_GenInterface}
