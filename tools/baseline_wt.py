#!/usr/bin/env python3
"""usage: baseline_check.py <worktree>   — runs the pinned suite in <worktree> (with PYTHONPATH=<worktree>) and
compares with the pinned baseline: exit 0 iff every baseline-passing test still passes (~3-4 min)."""
import json, os, subprocess, sys, tempfile, xml.etree.ElementTree as ET
wt = os.path.abspath(sys.argv[1])
out = tempfile.mktemp(suffix=".xml", dir="/var/tmp")
env = dict(os.environ); env["PYTHONPATH"] = wt; env.pop("JAX2ONNX_VERIF", None); env["JAX_PLATFORMS"] = "cpu"
subprocess.run(["/venv/bin/python", "-m", "pytest", "-q", "-p", "no:cacheprovider", "--timeout=900",
                "--continue-on-collection-errors", f"--junitxml={out}"], cwd=wt, env=env,
               stdout=subprocess.DEVNULL, stderr=subprocess.DEVNULL)
base = set(json.load(open("/root/.vp/BASELINE.json"))["stable_pass"])
passed = set()
for tc in ET.parse(out).getroot().iter("testcase"):
    if not any(ch.tag in ("failure", "error", "skipped") for ch in tc):
        passed.add(f"{tc.get('classname')}::{tc.get('name')}")
os.remove(out)
missing = sorted(base - passed)
# informational: tests outside the pinned baseline that passed at the reference point (tools/passing_ref.json) and fail now
import os as _os
_ref = _os.path.join(_os.path.dirname(_os.path.abspath(__file__)), "passing_ref.json")
json.dump(sorted(passed), open("/var/tmp/last_passing.json", "w"))
if _os.path.exists(_ref):
    _lost = sorted(set(json.load(open(_ref))) - passed - base)
    for _m in _lost[:20]:
        print("  LOST-EXTRA (not in the pinned baseline, passed at the reference point)", _m)
print(f"baseline {len(base)}  passed now {len(passed)}  baseline tests no longer passing: {len(missing)}")
for m in missing[:40]: print("  MISSING", m)
sys.exit(1 if missing else 0)
