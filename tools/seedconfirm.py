#!/usr/bin/env python3
"""Confirm a seeded change in a scratch worktree and file it under /verif/seeded/<id>/:
   seedconfirm.py <seed_out_dir> <id> <prop> [checks...]
   - demo.py exits 0 on clean HEAD, non-zero with the patch
   - the pinned suite still passes with the patch (every baseline-passing test passes)
   - runs the listed checks against the change (tools/seedtest.py) and records which alarm"""
import json
import os
import shutil
import subprocess
import sys
import tempfile

src, sid, prop = sys.argv[1], sys.argv[2], sys.argv[3]
checks = sys.argv[4:] or [prop]
tag = next(tempfile._get_candidate_names())
wt = f"/tmp/seedcf_{tag}"
env = dict(os.environ, PYTHONPATH=wt, JAX_PLATFORMS="cpu")
env.pop("JAX2ONNX_VERIF", None)
res = {}
try:
    subprocess.run(["git", "-C", "/repo", "worktree", "add", "-q", "--detach", wt, "HEAD"], check=True)
    demo = os.path.join(src, "demo.py")
    r0 = subprocess.run(["/venv/bin/python", demo], cwd=wt, env=env, stdout=subprocess.PIPE, stderr=subprocess.STDOUT, text=True, timeout=1800)
    res["demo_clean_exit"] = r0.returncode
    subprocess.run(["git", "-C", wt, "apply", os.path.join(src, "patch.diff")], check=True)
    r1 = subprocess.run(["/venv/bin/python", demo], cwd=wt, env=env, stdout=subprocess.PIPE, stderr=subprocess.STDOUT, text=True, timeout=1800)
    res["demo_patched_exit"] = r1.returncode
    res["demo_patched_tail"] = r1.stdout[-600:]
    rb = subprocess.run(["/venv/bin/python", "/verif/tools/baseline_wt.py", wt], stdout=subprocess.PIPE, stderr=subprocess.STDOUT, text=True, timeout=3600)
    res["baseline"] = rb.stdout.strip().split("\n")[0]
    res["baseline_exit"] = rb.returncode
finally:
    subprocess.run(["git", "-C", "/repo", "worktree", "remove", "--force", wt], stderr=subprocess.DEVNULL)
    shutil.rmtree(wt, ignore_errors=True)
    subprocess.run(["git", "-C", "/repo", "worktree", "prune"])
rt = subprocess.run([sys.executable, "/verif/tools/seedtest.py", os.path.join(src, "patch.diff")] + checks,
                    stdout=subprocess.PIPE, stderr=subprocess.STDOUT, text=True, timeout=7200)
res["checks_output"] = rt.stdout[-3000:]
res["caught_by"] = [l.split(":")[0].replace("== ", "") for l in rt.stdout.split("\n") if l.startswith("== ") and "exit 1" in l]
confirmed = res.get("demo_clean_exit") == 0 and res.get("demo_patched_exit", 0) != 0 and res.get("baseline_exit") == 0
res["confirmed"] = confirmed
dst = f"/verif/seeded/{sid}"
if confirmed:
    os.makedirs(dst, exist_ok=True)
    shutil.copy(os.path.join(src, "patch.diff"), dst)
    shutil.copy(os.path.join(src, "demo.py"), dst)
    meta = json.load(open(os.path.join(src, "meta.json"))) if os.path.exists(os.path.join(src, "meta.json")) else {}
    meta.update({"id": sid, "property": prop, "confirmed_by_maintainer": res, "what_i_ran":
                 "scratch worktree of /repo HEAD: demo.py exit 0 clean / non-zero patched; pinned suite compared with BASELINE.json; "
                 "tools/seedtest.py (scratch copy of /verif, VERIF_REPO=worktree) for the listed checks"})
    json.dump(meta, open(os.path.join(dst, "meta.json"), "w"), indent=1)
print(json.dumps({k: v for k, v in res.items() if k != "checks_output"}, indent=1))
print(res["checks_output"][-1500:])
