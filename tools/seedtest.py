#!/usr/bin/env python3
"""Run checks against a seeded change WITHOUT touching /repo or the live /verif build:
   seedtest.py <patch.diff> <Cxx> [<Cyy> ...] [--tier quick]
Makes a scratch worktree of /repo HEAD with the patch applied and a scratch copy of /verif, runs
`./check Cxx` there with VERIF_REPO pointing at the worktree, prints the VIOLATION / KNOWN-FINDING lines
and the exit codes, then removes both.  (The registered checks themselves always run in /verif against /repo.)"""
import os
import shutil
import subprocess
import sys
import tempfile

args = [a for a in sys.argv[1:] if not a.startswith("--")]
tier = "quick"
if "--tier" in sys.argv:
    tier = sys.argv[sys.argv.index("--tier") + 1]
    args = [a for a in args if a != tier]
patch, props = os.path.abspath(args[0]), args[1:]
tag = next(tempfile._get_candidate_names())
wt, vs = f"/tmp/seedwt_{tag}", f"/tmp/seedvs_{tag}"
try:
    subprocess.run(["git", "-C", "/repo", "worktree", "add", "-q", "--detach", wt, "HEAD"], check=True)
    subprocess.run(["git", "-C", wt, "apply", patch], check=True)
    subprocess.run(["rsync", "-a", "--exclude", ".git", "--exclude", ".work", "--exclude", "replays", "--exclude", ".scratch",
                    "/verif/", vs + "/"], check=True)
    env = dict(os.environ, VERIF_REPO=wt)
    for p in props:
        r = subprocess.run(["./check", p, "--tier", tier], cwd=vs, env=env, stdout=subprocess.PIPE, stderr=subprocess.STDOUT, text=True)
        lines = [l for l in r.stdout.split("\n") if l.startswith("VIOLATION") or l.startswith("KNOWN-FINDING")]
        print(f"== {p}: exit {r.returncode}; {sum(l.startswith('VIOLATION') for l in lines)} VIOLATION line(s)")
        for l in lines[:6]:
            print("   ", l[:220])
        rd = os.path.join(vs, "replays", p)
        if os.path.isdir(rd):
            import json
            for f in [x for x in sorted(os.listdir(rd)) if x.endswith('.json') and os.path.isfile(os.path.join(rd, x))][:3]:
                j = json.load(open(os.path.join(rd, f)))
                print("    replay:", (j.get("key") or "broken obligations: " + ", ".join(o["name"] if isinstance(o, dict) else o for o in j.get("broken_obligations", [])))[:200],
                      "|", str(j.get("what", ""))[:200])
finally:
    subprocess.run(["git", "-C", "/repo", "worktree", "remove", "--force", wt], stderr=subprocess.DEVNULL)
    shutil.rmtree(vs, ignore_errors=True)
    shutil.rmtree(wt, ignore_errors=True)
    subprocess.run(["git", "-C", "/repo", "worktree", "prune"])
